// Family c19: triedb/pathdb history index (blockWriter/blockReader/indexWriter/
// indexDeleter/indexReader, iterators) vs coq/PathDB/Index.v.
package main

import (
	"bytes"
	"encoding/binary"
	"fmt"
	"math"
	"sort"
	"strings"
	"time"

	. "gethverif/harness/hxlib"
	"github.com/ethereum/go-ethereum/common"
	"github.com/ethereum/go-ethereum/core/rawdb"
	"github.com/ethereum/go-ethereum/ethdb"
	"github.com/ethereum/go-ethereum/triedb/pathdb"
)

const clsPanic = 20

// error class of a Go error (same codes as err_code in coq/PathDB/Index.v)
func cls(err error) int64 {
	if err == nil {
		return 0
	}
	s := err.Error()
	tab := []struct {
		sub string
		c   int64
	}{
		{"corrupted index block, invalid varint", 15},
		{"corrupted index block, restarts", 16},
		{"corrupted index block, len", 1},
		{"corrupted index block, no restart", 2},
		{"truncated restarts", 3},
		{"restart out of order", 4},
		{"invalid restart position", 5},
		{"invalid zero id", 6},
		{"zero history ID is not valid", 6},
		{"append element out of order", 7},
		{"pop element out of order", 8},
		{"pop element is not found", 9},
		{"failed to decode item", 10},
		{"empty state history index block", 13},
		{"empty state history index", 11},
		{"corrupted state index", 12},
		{"index block id is out of order", 14},
	}
	for _, t := range tab {
		if strings.Contains(s, t.sub) {
			return t.c
		}
	}
	return 99
}

// guard runs f, mapping a panic of the implementation to class 20
func guard(f func() Sx) (out Sx) {
	defer func() {
		if recover() != nil {
			out = L(I(clsPanic))
		}
	}()
	return f()
}

func ids(l []uint64) Sx {
	out := make(SL, len(l))
	for i, v := range l {
		out[i] = U(v)
	}
	return out
}

func asIDs(v Sx) []uint64 {
	l := AsList(v)
	out := make([]uint64, len(l))
	for i, x := range l {
		out[i] = AsU64(x)
	}
	return out
}

// ---------------------------------------------------------------- reference
func refGT(ref []uint64, q uint64) uint64 {
	i := sort.Search(len(ref), func(i int) bool { return ref[i] > q })
	if i == len(ref) {
		return math.MaxUint64
	}
	return ref[i]
}
func refAfter(ref []uint64, q uint64) []uint64 {
	i := sort.Search(len(ref), func(i int) bool { return ref[i] > q })
	return ref[i:]
}
func eqIDs(a, b []uint64) bool {
	if len(a) != len(b) {
		return false
	}
	for i := range a {
		if a[i] != b[i] {
			return false
		}
	}
	return true
}
func strictlySorted(a []uint64) bool {
	for i := range a {
		if a[i] == 0 || (i > 0 && a[i] <= a[i-1]) {
			return false
		}
	}
	return true
}

type oracle struct{ fails []string }

func (o *oracle) failf(f string, a ...any) {
	if len(o.fails) < 5 {
		o.fails = append(o.fails, fmt.Sprintf(f, a...))
	}
}
func (o *oracle) String() string {
	if len(o.fails) == 0 {
		return ""
	}
	return strings.Join(o.fails, "; ")
}

// drain an iterator that has already been positioned (first = true: include current ID)
func drain(it pathdb.HistoryIndexIterator, first bool) []uint64 {
	var out []uint64
	if first {
		out = append(out, it.ID())
	}
	for it.Next() {
		out = append(out, it.ID())
	}
	return out
}

func readObs(v uint64, err error) Sx {
	if err != nil {
		return L(I(0), I(cls(err)), U(0))
	}
	return L(I(0), I(0), U(v))
}

func seekObs(it pathdb.HistoryIndexIterator, q uint64) (Sx, []uint64, bool) {
	found := it.SeekGT(q)
	var got []uint64
	if found {
		got = drain(it, true)
	}
	return L(I(0), Bool(found), I(cls(it.Error())), ids(got)), got, it.Error() == nil
}

// ---------------------------------------------------------------- kind 0: one block
func summary(w *pathdb.VerifC19BlockWriter) []Sx {
	max, entries, _, _ := w.Desc()
	rs, data := w.Raw()
	return []Sx{U(max), U(uint64(entries)), I(int64(len(data))), I(int64(len(rs)))}
}

func blockElems(blob []byte) ([]uint64, error) {
	r, err := pathdb.VerifC19NewBlockReader(blob, false)
	if err != nil {
		return nil, err
	}
	it := r.NewIterator()
	out := drain(it, false)
	return out, it.Error()
}

func runBlock(ops SL) Result {
	var (
		res  Result
		orc  oracle
		ref  []uint64
		obs  SL
		tags = map[string]bool{}
	)
	w, _ := pathdb.VerifC19NewBlockWriter(nil, 0, 0, 0, 0, 0)
	last := func() uint64 {
		if len(ref) == 0 {
			return 0
		}
		return ref[len(ref)-1]
	}
	checkState := func(what string) {
		max, entries, _, _ := w.Desc()
		if max != last() || int(entries) != len(ref) {
			orc.failf("%s: desc (max %d, entries %d) but reference has last %d, %d elements", what, max, entries, last(), len(ref))
		}
	}
	appendOne := func(id uint64) int64 {
		var c int64
		func() {
			defer func() {
				if recover() != nil {
					c = clsPanic
				}
			}()
			c = cls(w.Append(id, nil))
		}()
		want := int64(0)
		if id == 0 {
			want = 6
		} else if id <= last() {
			want = 7
		}
		if c != want {
			orc.failf("append(%d) after last %d: class %d, expected %d", id, last(), c, want)
		}
		if c == 0 {
			ref = append(ref, id)
		}
		return c
	}
	popOne := func(id uint64) int64 {
		var c int64
		func() {
			defer func() {
				if recover() != nil {
					c = clsPanic
				}
			}()
			c = cls(w.Pop(id))
		}()
		want := int64(0)
		if id == 0 {
			want = 6
		} else if id != last() {
			want = 8
		}
		if c != want {
			orc.failf("pop(%d) with last %d: class %d, expected %d", id, last(), c, want)
		}
		if c == 0 {
			ref = ref[:len(ref)-1]
		}
		return c
	}
	for _, opx := range ops {
		op := AsList(opx)
		switch AsInt(op[0]) {
		case 0:
			c := appendOne(AsU64(op[1]))
			checkState("append")
			obs = append(obs, SL(append([]Sx{I(c)}, summary(w)...)))
			tags[fmt.Sprintf("append%d", c)] = true
		case 1:
			c := popOne(AsU64(op[1]))
			checkState("pop")
			obs = append(obs, SL(append([]Sx{I(c)}, summary(w)...)))
			tags[fmt.Sprintf("pop%d", c)] = true
		case 2:
			limit := AsU64(op[1])
			blob := bytes.Clone(w.Finish())
			max, entries, id, _ := w.Desc()
			var c int64
			func() {
				defer func() {
					if recover() != nil {
						c = clsPanic
					}
				}()
				nw, err := pathdb.VerifC19NewBlockWriter(blob, max, entries, id, 0, limit)
				c = cls(err)
				if err == nil {
					w = nw
				}
			}()
			if len(ref) == 0 {
				if c != 2 {
					orc.failf("reopening an empty block: class %d, expected 2 (no restart)", c)
				}
			} else if c != 0 {
				orc.failf("reopening a block written by finish() failed with class %d", c)
			} else {
				k := sort.Search(len(ref), func(i int) bool { return ref[i] > limit })
				if k < len(ref) {
					tags["reopen-trim"] = true
				}
				ref = ref[:k]
			}
			checkState("reopen")
			obs = append(obs, SL(append([]Sx{I(c)}, summary(w)...)))
		case 3, 4, 5:
			blob := bytes.Clone(w.Finish())
			kind := AsInt(op[0])
			obs = append(obs, guard(func() Sx {
				r, err := pathdb.VerifC19NewBlockReader(blob, false)
				if err != nil {
					if len(ref) != 0 {
						orc.failf("block reader on finish() bytes failed: class %d", cls(err))
					}
					return L(I(cls(err)))
				}
				if len(ref) == 0 {
					orc.failf("block reader accepted the encoding of an empty block")
				}
				switch kind {
				case 3:
					q := AsU64(op[1])
					v, err := r.ReadGreaterThan(q)
					if err != nil || v != refGT(ref, q) {
						orc.failf("block readGreaterThan(%d) = %d, %v; expected %d", q, v, err, refGT(ref, q))
					}
					tags["read"] = true
					return readObs(v, err)
				case 4:
					q := AsU64(op[1])
					o, got, ok := seekObs(r.NewIterator(), q)
					if !ok || !eqIDs(got, refAfter(ref, q)) {
						orc.failf("block SeekGT(%d)+Next yields %d ids, expected %d", q, len(got), len(refAfter(ref, q)))
					}
					tags["seek"] = true
					return o
				default:
					it := r.NewIterator()
					got := drain(it, false)
					if it.Error() != nil || !eqIDs(got, ref) {
						orc.failf("block iteration yields %d ids (err %v), expected %d", len(got), it.Error(), len(ref))
					}
					return L(I(0), I(1), I(cls(it.Error())), ids(got))
				}
			}))
		case 6:
			var cl SL
			for _, id := range asIDs(op[1]) {
				cl = append(cl, I(appendOne(id)))
			}
			checkState("bulk append")
			obs = append(obs, SL(append([]Sx{cl}, summary(w)...)))
		case 7:
			blob := bytes.Clone(w.Finish())
			elems, err := blockElems(blob)
			if len(ref) > 0 && err != nil {
				orc.failf("dump: reading back finish() bytes failed: %v", err)
			}
			if !eqIDs(elems, ref) {
				orc.failf("dump: elements read back from the encoding differ from the reference (%d vs %d)", len(elems), len(ref))
			}
			if !strictlySorted(elems) {
				orc.failf("dump: elements are not strictly ascending positive ids")
			}
			if len(ref) > 0 { // write/read round trip: the reopened writer has the same raw state
				max, entries, id, _ := w.Desc()
				nw, err := pathdb.VerifC19NewBlockWriter(blob, max, entries, id, 0, math.MaxUint64)
				if err != nil {
					orc.failf("dump: reopen failed: %v", err)
				} else {
					r1, d1 := w.Raw()
					r2, d2 := nw.Raw()
					if !bytes.Equal(d1, d2) || len(r1) != len(r2) {
						orc.failf("dump: reopened writer differs from the original")
					}
					for i := range r1 {
						if i < len(r2) && r1[i] != r2[i] {
							orc.failf("dump: reopened restarts differ")
							break
						}
					}
				}
			}
			if len(ref) > 256 {
				tags["multi-section"] = true
			}
			obs = append(obs, L(B(blob), ids(elems), Bool(w.EstimateFull(nil))))
		case 8:
			var cl SL
			for i := 0; i < AsInt(op[1]); i++ {
				cl = append(cl, I(popOne(w.Last())))
			}
			checkState("bulk pop")
			obs = append(obs, SL(append([]Sx{cl}, summary(w)...)))
		default:
			panic("hxlib: unknown block op")
		}
	}
	res.Obs = obs
	res.Oracle = orc.String()
	for t := range tags {
		res.Tags = append(res.Tags, t)
	}
	res.Tags = append(res.Tags, "block")
	res.NonTrivial = len(ops) >= 3
	return res
}

// ---------------------------------------------------------------- kind 1: index over a store
var addr = common.Hash{0xc1, 0x9}

func dumpDB(db ethdb.Database) (meta []byte, blocks map[uint32][]byte, order []uint32) {
	meta = rawdb.ReadAccountHistoryIndex(db, addr)
	blocks = map[uint32][]byte{}
	it := db.NewIterator(rawdb.StateHistoryAccountBlockPrefix, nil)
	defer it.Release()
	for it.Next() {
		k := it.Key()
		id := binary.BigEndian.Uint32(k[len(k)-4:])
		blocks[id] = bytes.Clone(it.Value())
		order = append(order, id)
	}
	sort.Slice(order, func(i, j int) bool { return order[i] < order[j] })
	return
}

// elements of the stored index, decoded independently of the index reader:
// metadata descriptors in order, each block read back with a block reader
func dbElems(db ethdb.Database) ([]uint64, error) {
	meta, blocks, _ := dumpDB(db)
	if len(meta) == 0 {
		return nil, nil
	}
	descs, err := pathdb.VerifC19ParseIndex(meta, 0)
	if err != nil {
		return nil, err
	}
	var out []uint64
	for _, d := range descs {
		el, err := blockElems(blocks[d.ID])
		if err != nil {
			return nil, err
		}
		if len(el) != int(d.Entries) || el[len(el)-1] != d.Max {
			return nil, fmt.Errorf("descriptor (max %d, entries %d) does not describe block %d", d.Max, d.Entries, d.ID)
		}
		out = append(out, el...)
	}
	return out, nil
}

func runIndex(ops SL) Result {
	var (
		res      Result
		orc      oracle
		ref      []uint64
		obs      SL
		tags     = map[string]bool{}
		poisoned bool // a documented recovery corner (a block emptied by the limit) was hit: oracle off
	)
	db := rawdb.NewMemoryDatabase()
	last := func(l []uint64) uint64 {
		if len(l) == 0 {
			return 0
		}
		return l[len(l)-1]
	}
	checkDB := func(what string) {
		if poisoned {
			return
		}
		el, err := dbElems(db)
		if err != nil {
			orc.failf("%s: stored index unreadable: %v", what, err)
			return
		}
		if !eqIDs(el, ref) {
			orc.failf("%s: stored index has %d elements (last %d), reference %d (last %d)", what, len(el), last(el), len(ref), last(ref))
		}
		if !strictlySorted(el) {
			orc.failf("%s: stored index is not strictly ascending", what)
		}
	}
	for _, opx := range ops {
		op := AsList(opx)
		switch AsInt(op[0]) {
		case 0, 1:
			del := AsInt(op[0]) == 1
			limit := AsU64(op[1])
			list := asIDs(op[2])
			obs = append(obs, guard(func() Sx {
				k := sort.Search(len(ref), func(i int) bool { return ref[i] > limit })
				kept := ref[:k:k]
				if k < len(ref) {
					tags["limit-trim"] = true
				}
				var cl SL
				batch := db.NewBatch()
				var lastID uint64
				if !del {
					w, err := pathdb.VerifC19NewIndexWriter(db, addr, limit, 0)
					if err != nil {
						if !poisoned {
							orc.failf("newIndexWriter failed: %v", err)
						}
						return L(I(cls(err)))
					}
					if len(kept) > 0 && w.LastID() == 0 {
						// the whole last block exceeded the limit (repaired in /repo bb1fc7bf: falls back to the previous block)
						orc.failf("newIndexWriter(limit %d): lastID = 0 although ids <= limit are stored (last kept %d)", limit, last(kept))
					}
					cur := kept
					for _, id := range list {
						c := cls(w.Append(id, nil))
						want := int64(0)
						if id <= last(cur) {
							want = 7
						}
						if c != want && !poisoned {
							orc.failf("index append(%d) after last %d: class %d, expected %d", id, last(cur), c, want)
						}
						if c == 0 {
							cur = append(cur, id)
						}
						cl = append(cl, I(c))
					}
					if len(cur) == 0 && k < len(ref) && !poisoned {
						// documented latent corner: every stored id exceeded the limit and nothing was
						// appended: finish() writes nothing and the stale ids stay (callers always append)
						tags["trim-all-without-append"] = true
						poisoned = true
					}
					ref = cur
					w.Finish(batch)
					lastID = w.LastID()
				} else {
					d, err := pathdb.VerifC19NewIndexDeleter(db, addr, limit, 0)
					if err != nil {
						if !poisoned {
							orc.failf("newIndexDeleter failed: %v", err)
						}
						return L(I(cls(err)))
					}
					if len(kept) > 0 && d.LastID() == 0 {
						orc.failf("newIndexDeleter(limit %d): lastID = 0 although ids <= limit are stored (last kept %d)", limit, last(kept))
					}
					cur := kept
					for _, id := range list {
						c := cls(d.Pop(id))
						want := int64(0)
						if id == 0 {
							want = 6
						} else if id != last(cur) {
							want = 8
						}
						if c != want && !poisoned {
							orc.failf("index pop(%d) with last %d: class %d, expected %d", id, last(cur), c, want)
						}
						if c == 0 && len(cur) > 0 {
							cur = cur[:len(cur)-1]
						}
						cl = append(cl, I(c))
					}
					ref = cur
					d.Finish(batch)
					lastID = d.LastID()
				}
				_, _, before := dumpDB(db)
				if err := batch.Write(); err != nil {
					panic("hxlib: batch write failed")
				}
				_, _, after := dumpDB(db)
				if len(after) > len(before) {
					tags["rotated-block"] = true
				}
				if len(after) < len(before) {
					tags["dropped-block"] = true
				}
				if !poisoned && lastID != last(ref) {
					orc.failf("lastID %d after the session, reference last %d", lastID, last(ref))
				}
				return L(I(0), cl, U(lastID))
			}))
			checkDB("session")
			if del {
				tags["delete-session"] = true
			} else {
				tags["write-session"] = true
			}
		case 2, 3, 4:
			kind := AsInt(op[0])
			obs = append(obs, guard(func() Sx {
				r, err := pathdb.VerifC19NewIndexReader(db, addr, 0)
				if err != nil {
					if !poisoned {
						orc.failf("newIndexReader failed: %v", err)
					}
					return L(I(cls(err)))
				}
				switch kind {
				case 2:
					q := AsU64(op[1])
					v, err := r.ReadGreaterThan(q)
					if !poisoned && (err != nil || v != refGT(ref, q)) {
						orc.failf("index readGreaterThan(%d) = %d, %v; expected %d", q, v, err, refGT(ref, q))
					}
					return readObs(v, err)
				case 3:
					q := AsU64(op[1])
					o, got, ok := seekObs(r.NewIterator(), q)
					if !poisoned && (!ok || !eqIDs(got, refAfter(ref, q))) {
						orc.failf("index SeekGT(%d)+Next yields %d ids, expected %d", q, len(got), len(refAfter(ref, q)))
					}
					return o
				default:
					it := r.NewIterator()
					got := drain(it, false)
					if !poisoned && (it.Error() != nil || !eqIDs(got, ref)) {
						orc.failf("index iteration yields %d ids (err %v), expected %d", len(got), it.Error(), len(ref))
					}
					return L(I(0), I(1), I(cls(it.Error())), ids(got))
				}
			}))
		case 5:
			meta, blocks, order := dumpDB(db)
			var bl SL
			for _, id := range order {
				bl = append(bl, L(U(uint64(id)), B(blocks[id])))
			}
			if len(order) > 1 {
				tags["multi-block"] = true
			}
			obs = append(obs, L(B(meta), bl))
		case 6: // index pruner scan
			tail := AsU64(op[1])
			obs = append(obs, guard(func() Sx {
				n, err := pathdb.VerifC19PrunePrefix(db, tail)
				if err != nil {
					orc.failf("pruner scan failed: %v", err)
				}
				return L(I(int64(n)))
			}))
			tags["prune"] = true
			if !poisoned {
				el, err := dbElems(db)
				switch {
				case err != nil:
					orc.failf("prune(%d): stored index unreadable afterwards: %v", tail, err)
				case len(el) > len(ref) || !eqIDs(el, ref[len(ref)-len(el):]):
					orc.failf("prune(%d): stored ids are not a suffix of the ids before pruning", tail)
				default:
					dropped := ref[:len(ref)-len(el)]
					if len(dropped) > 0 {
						tags["prune-dropped"] = true
						if dropped[len(dropped)-1] >= tail {
							orc.failf("prune(%d) removed the live id %d (>= tail)", tail, dropped[len(dropped)-1])
						}
					}
					if len(el) == 0 && len(ref) > 0 {
						tags["prune-all"] = true
					}
					ref = el
				}
			}
		default:
			panic("hxlib: unknown index op")
		}
	}
	res.Obs = obs
	res.Oracle = orc.String()
	for t := range tags {
		res.Tags = append(res.Tags, t)
	}
	res.Tags = append(res.Tags, "index")
	res.NonTrivial = len(ops) >= 3
	return res
}

// ---------------------------------------------------------------- kinds 2, 3: malformed
func runBadBlock(blob []byte, qs []uint64) Result {
	var orc oracle
	res := Result{Tags: []string{"bad-block"}}
	parse := guard(func() Sx {
		rs, data, err := pathdb.VerifC19ParseIndexBlock(bytes.Clone(blob))
		if err != nil {
			res.Tags = append(res.Tags, fmt.Sprintf("blkerr%d", cls(err)))
			return L(I(cls(err)))
		}
		r := make(SL, len(rs))
		for i, x := range rs {
			r[i] = U(uint64(x))
		}
		res.Tags = append(res.Tags, "blk-parsed")
		return L(I(0), r, I(int64(len(data))))
	})
	pidx := guard(func() Sx {
		ds, err := pathdb.VerifC19ParseIndex(bytes.Clone(blob), 0)
		if err != nil {
			return L(I(cls(err)))
		}
		l := make(SL, len(ds))
		for i, d := range ds {
			l[i] = L(U(d.Max), U(uint64(d.Entries)), U(uint64(d.ID)))
		}
		return L(I(0), l)
	})
	rd := guard(func() Sx {
		r, err := pathdb.VerifC19NewBlockReader(bytes.Clone(blob), false)
		if err != nil {
			return L(I(cls(err)))
		}
		out := SL{I(0)}
		it := r.NewIterator()
		got := drain(it, false)
		out = append(out, L(I(0), I(1), I(cls(it.Error())), ids(got)))
		for _, q := range qs {
			v, err := r.ReadGreaterThan(q)
			so, _, _ := seekObs(r.NewIterator(), q)
			out = append(out, L(readObs(v, err), so))
		}
		return out
	})
	for _, o := range []Sx{parse, pidx, rd} {
		if String(o) == "(14)" { // class 20
			orc.failf("panic on malformed block bytes")
		}
	}
	res.Obs = L(parse, pidx, rd)
	res.Oracle = orc.String()
	res.NonTrivial = len(blob) >= 2
	return res
}

func runBadStore(meta []byte, blks SL, qs []uint64) Result {
	var orc oracle
	res := Result{Tags: []string{"bad-store"}}
	db := rawdb.NewMemoryDatabase()
	if len(meta) > 0 {
		rawdb.WriteAccountHistoryIndex(db, addr, meta)
	}
	for _, b := range blks {
		p := AsList(b)
		rawdb.WriteAccountHistoryIndexBlock(db, addr, uint32(AsU64(p[0])), AsBytes(p[1]))
	}
	o := guard(func() Sx {
		r, err := pathdb.VerifC19NewIndexReader(db, addr, 0)
		if err != nil {
			res.Tags = append(res.Tags, fmt.Sprintf("idxerr%d", cls(err)))
			return L(I(cls(err)))
		}
		out := SL{I(0)}
		it := r.NewIterator()
		got := drain(it, false)
		out = append(out, L(I(0), I(1), I(cls(it.Error())), ids(got)))
		if it.Error() != nil {
			res.Tags = append(res.Tags, fmt.Sprintf("iterr%d", cls(it.Error())))
		}
		for _, q := range qs {
			v, err := r.ReadGreaterThan(q)
			so, _, _ := seekObs(r.NewIterator(), q)
			out = append(out, L(readObs(v, err), so))
		}
		return out
	})
	if String(o) == "(14)" {
		orc.failf("panic on a malformed stored index")
	}
	res.Obs = o
	res.Oracle = orc.String()
	res.NonTrivial = len(meta) >= 14
	return res
}

// kind 4: a (possibly corrupted) block under a writer
func runBadWriter(blob []byte, max uint64, entries uint16, limit uint64, n int) Result {
	var orc oracle
	res := Result{Tags: []string{"bad-writer"}}
	o := guard(func() Sx {
		w, err := pathdb.VerifC19NewBlockWriter(bytes.Clone(blob), max, entries, 0, 0, limit)
		if err != nil {
			res.Tags = append(res.Tags, fmt.Sprintf("wopen%d", cls(err)))
			return L(I(cls(err)))
		}
		out := SL{I(0), SL(summary(w))}
		for i := 0; i < n; i++ {
			var c int64
			func() {
				defer func() {
					if recover() != nil {
						c = clsPanic
					}
				}()
				c = cls(w.Pop(w.Last()))
			}()
			if c != 0 {
				res.Tags = append(res.Tags, fmt.Sprintf("wpop%d", c))
				if c == clsPanic {
					orc.failf("pop panicked on a writer opened over malformed block bytes")
				}
				out = append(out, L(I(c)))
				break
			}
			out = append(out, SL(append([]Sx{I(0)}, summary(w)...)))
		}
		return out
	})
	if String(o) == "(14)" {
		orc.failf("newBlockWriter panicked on malformed block bytes")
	}
	res.Obs = o
	res.Oracle = orc.String()
	res.NonTrivial = len(blob) >= 2
	return res
}

func run(c Sx) Result {
	l := AsList(c)
	switch AsInt(l[0]) {
	case 0:
		return runBlock(AsList(l[1]))
	case 1:
		return runIndex(AsList(l[1]))
	case 2:
		return runBadBlock(AsBytes(l[1]), asIDs(l[2]))
	case 3:
		return runBadStore(AsBytes(l[1]), AsList(l[2]), asIDs(l[3]))
	case 4:
		return runBadWriter(AsBytes(l[1]), AsU64(l[2]), uint16(AsU64(l[3])), AsU64(l[4]), AsInt(l[5]))
	}
	panic("hxlib: unknown case kind")
}

// ---------------------------------------------------------------- generator
// next id above cur with a delta whose uvarint length varies (1..9 bytes)
var dense7 bool // generator mode: every delta takes 7 uvarint bytes (about 585 ids per 4096-byte block)

func nextID(r *Rng, cur uint64, big bool) uint64 {
	var d uint64
	switch {
	case dense7:
		d = 1<<42 + r.U64()>>16 // in [2^42, 2^48 + 2^42)
	case big && r.Chance(1, 3):
		d = 1 + r.U64()>>uint(8+r.Intn(50))
	case r.Chance(1, 6):
		d = 1 + uint64(r.Intn(20000))
	default:
		d = 1 + uint64(r.Intn(130))
	}
	if cur+d < cur || cur+d == math.MaxUint64 {
		return cur + 1
	}
	return cur + d
}

func ascending(r *Rng, cur uint64, n int, big bool) ([]uint64, uint64) {
	out := make([]uint64, n)
	for i := range out {
		cur = nextID(r, cur, big)
		out[i] = cur
	}
	return out, cur
}

func pickQ(r *Rng, ref []uint64) uint64 {
	if len(ref) == 0 || r.Chance(1, 8) {
		if r.Bool() {
			return uint64(r.Intn(5))
		}
		return r.U64()
	}
	x := ref[r.Intn(len(ref))]
	switch r.Intn(4) {
	case 0:
		return x - 1
	case 1:
		return x
	case 2:
		return x + 1
	}
	return ref[len(ref)-1] + uint64(r.Intn(3))
}

func genBlock(r *Rng, long bool) Sx {
	var (
		ops SL
		ref []uint64
		cur uint64
	)
	steps := r.Range(4, 25)
	big := r.Chance(1, 3)
	for s := 0; s < steps; s++ {
		switch k := r.Intn(20); {
		case k < 4: // single append (sometimes out of order / zero)
			var id uint64
			switch r.Intn(8) {
			case 0:
				id = 0
			case 1:
				id = cur
			case 2:
				if cur > 1 {
					id = uint64(r.Intn(int(min(cur, 1<<30))))
				}
			default:
				id = nextID(r, cur, big)
			}
			ops = append(ops, L(I(0), U(id)))
			if id > cur {
				ref = append(ref, id)
				cur = id
			}
		case k < 6: // single pop (sometimes of the wrong id)
			id := cur
			if r.Chance(1, 5) {
				id = pickQ(r, ref)
			}
			ops = append(ops, L(I(1), U(id)))
			if id == cur && len(ref) > 0 {
				ref = ref[:len(ref)-1]
				cur = 0
				if len(ref) > 0 {
					cur = ref[len(ref)-1]
				}
			}
		case k < 10: // bulk append up to / across the 256-entry restart boundary
			n := r.Range(1, 40)
			if long || r.Chance(1, 3) {
				n = 256 - len(ref)%256 + r.Range(-3, 3)
				if n <= 0 {
					n = r.Range(250, 260)
				}
			}
			if len(ref) > 3000 {
				n = r.Range(1, 5)
			}
			l, c2 := ascending(r, cur, n, big)
			ref = append(ref, l...)
			cur = c2
			ops = append(ops, L(I(6), ids(l)))
		case k < 12: // bulk pop, often down to / across a restart boundary
			n := r.Range(1, 10)
			if len(ref) > 0 && r.Bool() {
				n = len(ref)%256 + r.Range(-2, 3)
			}
			if r.Chance(1, 12) {
				n = len(ref) + r.Intn(2)
			}
			if n < 0 {
				n = 0
			}
			ops = append(ops, L(I(8), I(int64(n))))
			if n > len(ref) {
				n = len(ref)
			}
			ref = ref[:len(ref)-n]
			cur = 0
			if len(ref) > 0 {
				cur = ref[len(ref)-1]
			}
		case k < 13: // reopen from bytes, with or without trimming
			limit := uint64(math.MaxUint64)
			if r.Bool() {
				limit = pickQ(r, ref)
			}
			ops = append(ops, L(I(2), U(limit)))
			if len(ref) > 0 {
				i := sort.Search(len(ref), func(i int) bool { return ref[i] > limit })
				ref = ref[:i]
				cur = 0
				if len(ref) > 0 {
					cur = ref[len(ref)-1]
				}
			}
		case k < 15:
			ops = append(ops, L(I(3), U(pickQ(r, ref))))
		case k < 17:
			if len(ref) > 600 {
				// keep long iterations near the end so that the output stays small
				q := ref[len(ref)-1-r.Intn(300)]
				ops = append(ops, L(I(4), U(q)))
			} else {
				ops = append(ops, L(I(4), U(pickQ(r, ref))))
			}
		case k < 18:
			if len(ref) <= 600 {
				ops = append(ops, L(I(5)))
			}
		default:
			ops = append(ops, L(I(7)))
		}
	}
	ops = append(ops, L(I(7)))
	return L(I(0), ops)
}

// an index session crossing the 4096-byte block boundary
func genIndex(r *Rng) Sx {
	var (
		ops SL
		ref []uint64
	)
	last := func() uint64 {
		if len(ref) == 0 {
			return 0
		}
		return ref[len(ref)-1]
	}
	big := r.Chance(1, 2)
	dense7 = r.Chance(2, 3)
	defer func() { dense7 = false }()
	steps := r.Range(3, 14)
	for s := 0; s < steps; s++ {
		k := r.Intn(20)
		if s == 0 {
			k = 0 // start by filling blocks
		}
		switch {
		case k < 7: // write session
			limit := uint64(math.MaxUint64)
			if r.Chance(1, 4) {
				limit = last() + uint64(r.Intn(3))
			}
			trim := false
			if len(ref) > 0 && r.Chance(1, 5) { // recovery: elements above the limit are dropped
				limit = pickQ(r, ref)
				trim = true
			}
			kept := ref
			if i := sort.Search(len(ref), func(i int) bool { return ref[i] > limit }); i < len(ref) {
				kept = ref[:i:i]
			}
			n := r.Range(0, 30)
			switch r.Intn(5) {
			case 0:
				n = r.Range(400, 1500) // fills blocks
			case 1:
				n = r.Range(100, 600)
			}
			if s == 0 {
				n = r.Range(500, 1400)
			}
			if trim && n == 0 {
				n = 1
			}
			base := uint64(0)
			if len(kept) > 0 {
				base = kept[len(kept)-1]
			}
			if trim && limit != math.MaxUint64 && limit > base {
				base = limit // the caller only appends ids above the limit
			}
			l, _ := ascending(r, base, n, big)
			if !trim && len(l) > 2 && r.Chance(1, 10) { // an out-of-order id in the middle
				l[len(l)/2] = l[0]
			}
			ops = append(ops, L(I(0), U(limit), ids(l)))
			cur := kept
			for _, id := range l {
				if len(cur) == 0 || id > cur[len(cur)-1] {
					cur = append(cur, id)
				}
			}
			ref = cur
		case k < 12: // delete session: pops from the head, newest first
			limit := uint64(math.MaxUint64)
			if r.Chance(1, 4) {
				limit = last()
			}
			if len(ref) > 0 && r.Chance(1, 6) {
				limit = pickQ(r, ref)
			}
			kept := ref
			if i := sort.Search(len(ref), func(i int) bool { return ref[i] > limit }); i < len(ref) {
				kept = ref[:i:i]
			}
			n := r.Range(0, 20)
			switch r.Intn(5) {
			case 0:
				n = r.Range(300, 1200)
			case 1:
				n = len(kept) + r.Intn(2)
			case 2:
				n = r.Intn(len(kept) + 1)
			}
			var l []uint64
			cur := kept
			for i := 0; i < n; i++ {
				if len(cur) == 0 {
					l = append(l, uint64(r.Intn(3)))
					continue
				}
				id := cur[len(cur)-1]
				if r.Chance(1, 60) {
					id = pickQ(r, cur)
				}
				l = append(l, id)
				if id == cur[len(cur)-1] {
					cur = cur[:len(cur)-1]
				}
			}
			ops = append(ops, L(I(1), U(limit), ids(l)))
			ref = cur
		case k < 15:
			ops = append(ops, L(I(2), U(pickQ(r, ref))))
		case k < 17:
			if len(ref) > 600 {
				ops = append(ops, L(I(3), U(ref[len(ref)-1-r.Intn(300)])))
			} else {
				ops = append(ops, L(I(3), U(pickQ(r, ref))))
			}
		case k < 18:
			if len(ref) <= 800 {
				ops = append(ops, L(I(4)))
			}
		default:
			ops = append(ops, L(I(5)))
		}
	}
	ops = append(ops, L(I(2), U(pickQ(r, ref))), L(I(5)))
	return L(I(1), ops)
}

// a well-formed block encoding of some ids, to be corrupted
func goodBlock(r *Rng, n int) ([]byte, []uint64) {
	w, _ := pathdb.VerifC19NewBlockWriter(nil, 0, 0, 0, 0, 0)
	l, _ := ascending(r, 0, n, r.Bool())
	for _, id := range l {
		w.Append(id, nil)
	}
	return bytes.Clone(w.Finish()), l
}

func corrupt(r *Rng, b []byte) []byte {
	b = bytes.Clone(b)
	switch r.Intn(7) {
	case 0: // truncate
		b = b[:r.Intn(len(b)+1)]
	case 1: // flip a byte
		if len(b) > 0 {
			b[r.Intn(len(b))] ^= byte(1 << uint(r.Intn(8)))
		}
	case 2: // overwrite a byte with a continuation byte
		if len(b) > 0 {
			b[r.Intn(len(b))] = 0x80 | byte(r.Intn(128))
		}
	case 3: // bump the restart count
		if len(b) > 0 {
			b[len(b)-1] = byte(r.Intn(6))
		}
	case 4: // append junk
		b = append(b, r.Bytes(r.Range(1, 4))...)
	case 5: // run of continuation bytes (uvarint overflow)
		if len(b) > 12 {
			p := r.Intn(len(b) - 11)
			for i := 0; i < 11; i++ {
				b[p+i] = 0xff
			}
		}
	default: // drop a byte in the middle
		if len(b) > 1 {
			p := r.Intn(len(b))
			b = append(b[:p], b[p+1:]...)
		}
	}
	return b
}

func genBadBlock(r *Rng) Sx {
	var blob []byte
	var l []uint64
	if r.Chance(1, 5) {
		blob = r.Bytes(r.Intn(20))
	} else {
		n := r.Range(1, 12)
		if r.Chance(1, 4) {
			n = r.Range(250, 530)
		}
		blob, l = goodBlock(r, n)
		for i := r.Range(1, 2); i > 0; i-- {
			blob = corrupt(r, blob)
		}
	}
	qs := []uint64{0, pickQ(r, l), pickQ(r, l)}
	return L(I(2), B(blob), ids(qs))
}

// a corrupted block under a writer, with the descriptor of the uncorrupted block
func genBadWriter(r *Rng) Sx {
	for {
		n := r.Range(1, 12)
		if r.Chance(1, 4) {
			n = r.Range(250, 530)
		}
		blob, l := goodBlock(r, n)
		for i := r.Range(1, 2); i > 0; i-- {
			blob = corrupt(r, blob)
		}
		max, entries := l[len(l)-1], uint16(len(l))
		if r.Chance(1, 8) {
			entries = uint16(r.Intn(600)) // a lying descriptor
		}
		limit := uint64(math.MaxUint64)
		if r.Chance(1, 3) {
			limit = pickQ(r, l)
		}
		return L(I(4), B(blob), U(max), U(uint64(entries)), U(limit), I(int64(r.Range(1, 6))))
	}
}

func genBadStore(r *Rng) Sx {
	// a well-formed two/three-block store built through the real writer, then corrupted
	db := rawdb.NewMemoryDatabase()
	w, _ := pathdb.VerifC19NewIndexWriter(db, addr, 0, 0)
	n := r.Range(1, 40)
	if r.Chance(1, 2) {
		n = r.Range(500, 1300)
	}
	l, _ := ascending(r, 0, n, true)
	for _, id := range l {
		w.Append(id, nil)
	}
	batch := db.NewBatch()
	w.Finish(batch)
	batch.Write()
	meta, blocks, order := dumpDB(db)
	switch r.Intn(6) {
	case 0:
		meta = corrupt(r, meta)
	case 1: // drop a block
		delete(blocks, order[r.Intn(len(order))])
	case 2, 3: // corrupt a block
		id := order[r.Intn(len(order))]
		blocks[id] = corrupt(r, blocks[id])
	case 4: // lie in a descriptor (max / entries / id)
		if len(meta) >= 14 {
			p := r.Intn(len(meta))
			meta = bytes.Clone(meta)
			meta[p] ^= byte(1 << uint(r.Intn(8)))
		}
	default: // swap two blocks
		if len(order) >= 2 {
			blocks[order[0]], blocks[order[1]] = blocks[order[1]], blocks[order[0]]
		}
	}
	var bl SL
	for _, id := range order {
		if b, ok := blocks[id]; ok && len(b) > 0 {
			bl = append(bl, L(U(uint64(id)), B(b)))
		}
	}
	qs := []uint64{0, pickQ(r, l), pickQ(r, l)}
	return L(I(3), B(meta), bl, ids(qs))
}

// pruning sessions: a multi-block index is built (7-byte deltas: about 585 ids per
// block), its block maxima are read off the real metadata, and the pruner is run
// with tails on block boundaries (max of block k, +-1), in the middle of a block,
// below the first id and above the last, with queries around the tail after each
// run, further appends, and a second pruning.
func genPrune(r *Rng) Sx {
	dense7 = true
	defer func() { dense7 = false }()
	n := r.Range(1250, 1900)
	l, cur := ascending(r, uint64(r.Intn(1000)), n, false)
	db := rawdb.NewMemoryDatabase()
	w, _ := pathdb.VerifC19NewIndexWriter(db, addr, 0, 0)
	for _, id := range l {
		w.Append(id, nil)
	}
	batch := db.NewBatch()
	w.Finish(batch)
	batch.Write()
	meta, _, _ := dumpDB(db)
	descs, _ := pathdb.VerifC19ParseIndex(meta, 0)
	var maxes []uint64
	for _, d := range descs {
		maxes = append(maxes, d.Max)
	}
	pickTail := func(lo int) (uint64, int) {
		switch r.Intn(10) {
		case 0:
			return l[0] - uint64(r.Intn(2)), lo // below / at the first id
		case 1:
			return l[len(l)-1] + uint64(r.Intn(3)), len(maxes) // at / above the last id
		case 2, 3:
			return l[r.Intn(len(l))], lo // anywhere
		}
		k := lo + r.Intn(len(maxes)-lo)
		return maxes[k] + uint64(r.Intn(3)) - 1, k // max of block k, -1, +1
	}
	ops := SL{L(I(0), U(math.MaxUint64), ids(l))}
	if r.Chance(1, 4) {
		ops = append(ops, L(I(5)))
	}
	lo := 0
	for round := 0; round < r.Range(1, 3) && lo < len(maxes); round++ {
		tail, k := pickTail(lo)
		if round == 0 && len(maxes) >= 2 && r.Bool() {
			// exactly the max id of a non-first block: the id itself must survive
			k = 1 + r.Intn(len(maxes)-1)
			tail = maxes[k]
		}
		ops = append(ops, L(I(6), U(tail)))
		for _, q := range []uint64{tail - 1, tail, tail + 1} {
			if r.Chance(2, 3) {
				ops = append(ops, L(I(2), U(q)))
			}
		}
		if r.Chance(1, 4) {
			ops = append(ops, L(I(5)))
		}
		if k > lo {
			lo = k
		}
		if r.Chance(1, 3) { // keep appending, then prune again
			more, c2 := ascending(r, cur, r.Range(1, 700), false)
			cur = c2
			ops = append(ops, L(I(0), U(math.MaxUint64), ids(more)))
		}
		if r.Chance(1, 5) { // pop a few from the head as well
			ops = append(ops, L(I(1), U(math.MaxUint64), ids([]uint64{cur})))
		}
	}
	ops = append(ops, L(I(2), U(0)), L(I(5)))
	return L(I(1), ops)
}

func gen(r *Rng, tier string, emit func(Sx)) {
	nBlock, nLong, nIndex, nBad, nBadStore := 260, 16, 20, 400, 50
	if tier == "thorough" {
		nBlock, nLong, nIndex, nBad, nBadStore = 4000, 300, 150, 6000, 600
	}
	for i := 0; i < nBlock; i++ {
		emit(genBlock(r, false))
	}
	for i := 0; i < nLong; i++ {
		emit(genBlock(r, true))
	}
	for i := 0; i < nIndex; i++ {
		emit(genIndex(r))
	}
	for i := 0; i < nIndex/2; i++ {
		emit(genPrune(r))
	}
	for i := 0; i < nBad; i++ {
		emit(genBadBlock(r))
	}
	for i := 0; i < nBadStore; i++ {
		emit(genBadStore(r))
	}
	for i := 0; i < nBad/2; i++ {
		emit(genBadWriter(r))
	}
}

func main() {
	Main(Family{
		ID:          "C19",
		Rule:        "block sessions: random single/bulk appends (strictly ascending ids with 1..9-byte deltas, plus zero/out-of-order ids), single/bulk pops aimed at the 256-entry restart boundary, reopening from finish() bytes with and without a trimming limit, readGreaterThan/SeekGT+Next/full iteration on a reader over the bytes, byte dumps; index sessions over a memory store: writer sessions (filling several 4096-byte blocks), deleter sessions (popping across block boundaries, down to empty), limit-trimmed reopen, queries and store dumps after sessions; pruning sessions: a 3-6 block index, the index pruner's scan with tails equal to each block's max id (and +-1), inside a block, below the first and above the last id, queries around the tail, further appends and a second pruning; malformed stream: truncated/bit-flipped/continuation-byte/overflow/junk-extended blocks and random bytes through parseIndexBlock, parseIndex and the block reader, corrupted stores (metadata, dropped/swapped/corrupted blocks) through the index reader, corrupted blocks under a block writer (newBlockWriter with the original or a lying descriptor, with and without a trimming limit, then pops). Non-trivial: a session of >= 3 operations, a malformed blob of >= 2 bytes, a malformed store with >= 1 descriptor; distinct = distinct case line.",
		Gen:         gen,
		Run:         run,
		CaseTimeout: 20 * time.Second,
	})
}
