// Family c20: crash recovery of the path database (triedb/pathdb database.go New /
// loadLayers / Close, journal.go loadJournal / Journal, history.go repairHistory /
// truncateFromHead / truncateFromTail, disklayer.go commit / writeHistory, buffer.go
// flush) vs coq/PathDB/Journal.v.
//
// A case is a configuration and a history of Update / Commit / Journal / clean reopen
// operations (format: coq/Run/C20.v).  The real pathdb.Database runs over a WRAPPED
// memory key-value store (every Put / Delete / batch.Write is a numbered persistence
// event) and a real file-based state freezer whose ModifyAncients / TruncateTail /
// TruncateHead / SyncAncient / Reset calls are numbered by an interposer installed with
// triedb/pathdb/verif_export_c20.go.  After EVERY persistence event the persistent
// state is snapshotted (key-value pairs, freezer files, the metadata records last
// fsync'ed, the journal file); after the operation every snapshot is turned into crash
// states (freezer as on disk or with the last fsync'ed metadata = older tail, unsynced
// index/data bytes physically cut; journal file renamed-but-not-dir-synced = old or new),
// reopened with pathdb.New, observed, checked by the oracle, reopened a second time
// (idempotence), used for a Recover smoke test and discarded.  A crash operation makes
// one of those crash states the live database, so histories continue after crashes.
package main

import (
	"bytes"
	"context"
	"encoding/binary"
	"errors"
	"fmt"
	"log/slog"
	"os"
	"path/filepath"
	"sort"
	"strings"

	. "gethverif/harness/hxlib"
	"github.com/ethereum/go-ethereum/common"
	"github.com/ethereum/go-ethereum/core/rawdb"
	"github.com/ethereum/go-ethereum/core/types"
	"github.com/ethereum/go-ethereum/crypto"
	"github.com/ethereum/go-ethereum/ethdb"
	"github.com/ethereum/go-ethereum/log"
	"github.com/ethereum/go-ethereum/rlp"
	"github.com/ethereum/go-ethereum/trie"
	"github.com/ethereum/go-ethereum/trie/trienode"
	"github.com/ethereum/go-ethereum/triedb/pathdb"
	"github.com/holiman/uint256"
)

// ---- log.Crit interception ---------------------------------------------------------------

// critPanic is raised by the log handler instead of letting log.Crit call os.Exit.
type critPanic struct{ msg string }

type critHandler struct{}

func (critHandler) Enabled(_ context.Context, l slog.Level) bool { return l >= log.LevelCrit }
func (critHandler) Handle(_ context.Context, r slog.Record) error {
	if r.Level >= log.LevelCrit {
		msg := r.Message
		r.Attrs(func(a slog.Attr) bool { msg += " " + a.Key + "=" + fmt.Sprint(a.Value.Any()); return true })
		panic(critPanic{msg})
	}
	return nil
}
func (h critHandler) WithAttrs([]slog.Attr) slog.Handler { return h }
func (h critHandler) WithGroup(string) slog.Handler      { return h }

// ---- identifiers and encodings (as family c17) ---------------------------------------------

func addrOf(a int) common.Address { return common.Address{0xA0, byte(a >> 8), byte(a), 0x20} }
func slotKeyOf(s int) common.Hash { return common.Hash{0x50, byte(s >> 8), byte(s), 0x20} }

func slotBlob(v int64) []byte {
	if v == 0 {
		return nil
	}
	var be [8]byte
	binary.BigEndian.PutUint64(be[:], uint64(v))
	out, _ := rlp.EncodeToBytes(common.TrimLeftZeroes(be[:]))
	return out
}
func slotVal(blob []byte) int64 {
	if len(blob) == 0 {
		return 0
	}
	var raw []byte
	if err := rlp.DecodeBytes(blob, &raw); err != nil || len(raw) > 8 {
		return -1
	}
	var be [8]byte
	copy(be[8-len(raw):], raw)
	return int64(binary.BigEndian.Uint64(be[:]))
}
func acctOf(a int, v int64, sroot common.Hash) types.StateAccount {
	return types.StateAccount{Nonce: uint64(v), Balance: uint256.NewInt(uint64(1000 + a)), Root: sroot, CodeHash: types.EmptyCodeHash.Bytes()}
}
func acctVal(slim []byte) int64 {
	if len(slim) == 0 {
		return 0
	}
	acc, err := types.FullAccount(slim)
	if err != nil {
		return -1
	}
	return int64(acc.Nonce)
}

type skey struct{ a, s int } // s = -1: the account itself

// refState is the harness's own record of one state.
type refState struct {
	acct  map[int]int64
	slot  map[skey]int64
	sroot map[int]common.Hash
	flat  map[skey][]byte // slim account RLP / slot RLP
}

func newRef() *refState {
	return &refState{acct: map[int]int64{}, slot: map[skey]int64{}, sroot: map[int]common.Hash{}, flat: map[skey][]byte{}}
}
func (r *refState) copy() *refState {
	n := newRef()
	for k, v := range r.acct {
		n.acct[k] = v
	}
	for k, v := range r.slot {
		n.slot[k] = v
	}
	for k, v := range r.sroot {
		n.sroot[k] = v
	}
	for k, v := range r.flat {
		n.flat[k] = v
	}
	return n
}
func (r *refState) val(k skey) int64 {
	if k.s < 0 {
		return r.acct[k.a]
	}
	return r.slot[k]
}

func shape(msg string) { panic("hxlib: " + msg) }

// ---- persistence events ----------------------------------------------------------------------

const (
	evFrAppend    = 1
	evFrTruncTail = 2
	evFrTruncHead = 3
	evFrSync      = 4
	evPutID       = 5
	evBatchState  = 6
	evPutJournal  = 7
	evFrReset     = 8
	evBatchOther  = 9
	evPutOther    = 10
	evJTmp        = 20
	evJTmpSync    = 21
	evJRename     = 22
	evJDirSync    = 23
	evJRemove     = 24
)

// snapshot of the persistent state right after one event
type snapshot struct {
	kv      map[string][]byte
	fr      map[string][]byte // freezer files as on disk
	frMeta  map[string][]byte // the metadata records last fsync'ed
	jlive   []byte            // journal file visible to a running process (nil = none)
	jdur    []byte            // journal file guaranteed after a crash
	jtmp    []byte            // leftover temporary journal file
	lastAck uint64            // persistent state id acknowledged (see oracle)
	// recFloor: a Recover rolled (or is rolling) the database back to exactly the history
	// tail recFloor; only then may the disk layer sit ON the tail after a reopen
	recFloor    uint64
	recFloorSet bool
}

type recorder struct {
	w      *world
	on     bool
	kinds  []int64
	snaps  []*snapshot
	nested int
	// violations of rules checked at event time (see evFreezer.TruncateTail)
	violations []string
	// kvSynced: SyncKeyValue was called since the flag was last cleared
	kvSynced bool
}

// ---- wrapped key-value store ---------------------------------------------------------------------

type evDB struct {
	ethdb.Database
	rec *recorder
	dir string
}

func classifyKey(key []byte) int64 {
	switch {
	case bytes.Equal(key, []byte("TrieJournal")):
		return evPutJournal
	case len(key) == 1+common.HashLength && key[0] == 'L':
		return evPutID
	}
	return evPutOther
}

func (d *evDB) Put(key, value []byte) error {
	err := d.Database.Put(key, value)
	d.rec.event(classifyKey(key))
	return err
}
func (d *evDB) Delete(key []byte) error {
	err := d.Database.Delete(key)
	d.rec.event(evPutOther)
	return err
}
func (d *evDB) DeleteRange(start, end []byte) error {
	err := d.Database.DeleteRange(start, end)
	d.rec.event(evPutOther)
	return err
}
func (d *evDB) NewBatch() ethdb.Batch { return &evBatch{Batch: d.Database.NewBatch(), d: d} }
func (d *evDB) NewBatchWithSize(n int) ethdb.Batch {
	return &evBatch{Batch: d.Database.NewBatchWithSize(n), d: d}
}
func (d *evDB) AncientDatadir() (string, error) { return d.dir, nil }
func (d *evDB) SyncKeyValue() error {
	d.rec.kvSynced = true
	return d.Database.SyncKeyValue()
}

type evBatch struct {
	ethdb.Batch
	d     *evDB
	state bool
}

func (b *evBatch) Put(key, value []byte) error {
	if bytes.Equal(key, []byte("LastStateID")) {
		b.state = true
	}
	return b.Batch.Put(key, value)
}
func (b *evBatch) Write() error {
	err := b.Batch.Write()
	if b.state {
		b.d.rec.event(evBatchState)
	} else {
		b.d.rec.event(evBatchOther)
	}
	return err
}
func (b *evBatch) Reset() { b.state = false; b.Batch.Reset() }

// ---- wrapped state freezer ---------------------------------------------------------------------------

type evFreezer struct {
	ethdb.ResettableAncientStore
	rec *recorder
}

func (f *evFreezer) ModifyAncients(fn func(ethdb.AncientWriteOp) error) (int64, error) {
	n, err := f.ResettableAncientStore.ModifyAncients(fn)
	f.rec.event(evFrAppend)
	return n, err
}
func (f *evFreezer) SyncAncient() error {
	err := f.ResettableAncientStore.SyncAncient()
	f.rec.frSynced()
	f.rec.event(evFrSync)
	return err
}
func (f *evFreezer) TruncateHead(n uint64) (uint64, error) {
	before := f.rec.w.readMetas()
	o, err := f.ResettableAncientStore.TruncateHead(n)
	// the metadata record is rewritten with fsync only when the flush offset moves
	after := f.rec.w.readMetas()
	for name, b := range after {
		if !bytes.Equal(b, before[name]) {
			f.rec.w.metaSynced[name] = b
		}
	}
	f.rec.event(evFrTruncHead)
	return o, err
}
func (f *evFreezer) TruncateTail(group string, n uint64) (uint64, error) {
	// Freezer.TruncateTail syncs every table first (metadata fsync'ed with the OLD tail),
	// then stores the new virtual tail WITHOUT fsync
	old, _ := f.ResettableAncientStore.Tail(group)
	if n > old {
		if err := f.ResettableAncientStore.SyncAncient(); err == nil {
			f.rec.frSynced()
		}
	}
	o, err := f.ResettableAncientStore.TruncateTail(group, n)
	// disklayer.go writeHistory: tail truncation is postponed (and a flush forced) until
	// the persistent state id is >= the id of the first REMAINING history (new tail + 1):
	// the history of the persisted state itself is never pruned, so that a crash right
	// after the truncation reopens at a state that can still be rolled back
	if nt, terr := f.ResettableAncientStore.Tail(group); terr == nil && nt > old {
		if pid := rawdb.ReadPersistentStateID(f.rec.w.kv); nt+1 > pid {
			f.rec.violations = append(f.rec.violations, fmt.Sprintf(
				"history tail truncated to %d while the persistent state id is %d: the history of the persisted state (first remaining history must be <= persistent id) is pruned", nt, pid))
		}
		f.rec.w.recFloorSet = false
	}
	f.rec.event(evFrTruncTail)
	return o, err
}
func (f *evFreezer) Reset() error {
	err := f.ResettableAncientStore.Reset()
	f.rec.frSynced()
	f.rec.event(evFrReset)
	return err
}

// ---- world: one database instance over its stores --------------------------------------------------------

type config struct {
	limit   uint64
	full    bool
	maxdiff int
	jfile   bool
	na, ns  int
}

type world struct {
	cfg        config
	base       string // scratch directory of this world
	kv         ethdb.Database
	wdb        *evDB
	db         *pathdb.Database
	inner      ethdb.ResettableAncientStore
	rec        *recorder
	metaSynced map[string][]byte
	jdur       []byte
	jdurSet    bool
	lastAck    uint64
	recFloor    uint64
	recFloorSet bool
}

func (w *world) ancientDir() string { return filepath.Join(w.base, "ancient") }
func (w *world) frDir() string      { return filepath.Join(w.base, "ancient", "state") }
func (w *world) jDir() string       { return filepath.Join(w.base, "journal") }
func (w *world) jPath() string      { return filepath.Join(w.base, "journal", "merkle.journal") }

func readDirFiles(dir string) map[string][]byte {
	out := map[string][]byte{}
	es, _ := os.ReadDir(dir)
	for _, e := range es {
		if e.IsDir() || e.Name() == "FLOCK" {
			continue
		}
		b, _ := os.ReadFile(filepath.Join(dir, e.Name()))
		out[e.Name()] = b
	}
	return out
}

func (w *world) readMetas() map[string][]byte {
	out := map[string][]byte{}
	for n, b := range readDirFiles(w.frDir()) {
		if strings.HasSuffix(n, ".meta") {
			out[n] = b
		}
	}
	return out
}

func (r *recorder) frSynced() { r.w.metaSynced = r.w.readMetas() }

func readFileOrNil(p string) []byte {
	b, err := os.ReadFile(p)
	if err != nil {
		return nil
	}
	if b == nil {
		b = []byte{}
	}
	return b
}

func (w *world) snapshot() *snapshot {
	s := &snapshot{kv: map[string][]byte{}, fr: readDirFiles(w.frDir()), frMeta: map[string][]byte{}, lastAck: w.lastAck,
		recFloor: w.recFloor, recFloorSet: w.recFloorSet}
	it := w.kv.NewIterator(nil, nil)
	for it.Next() {
		s.kv[string(it.Key())] = append([]byte{}, it.Value()...)
	}
	it.Release()
	for n, b := range w.metaSynced {
		s.frMeta[n] = b
	}
	if w.cfg.jfile {
		s.jlive = readFileOrNil(w.jPath())
		s.jdur = s.jlive
		if w.jdurSet {
			s.jdur = w.jdur
		}
		s.jtmp = readFileOrNil(w.jPath() + ".tmp")
	}
	return s
}

func (r *recorder) event(kind int64) {
	if !r.on {
		return
	}
	r.kinds = append(r.kinds, kind)
	r.snaps = append(r.snaps, r.w.snapshot())
}

var scratchSeq int

func scratchDir() string {
	base := "/dev/shm"
	if _, err := os.Stat(base); err != nil {
		base = ""
	}
	dir, err := os.MkdirTemp(base, "hx_c20_")
	if err != nil {
		panic(err)
	}
	return dir
}

// metaRec decodes a freezer table metadata record (rlp: version, virtual tail, flush offset)
type metaRec struct {
	Version uint16
	Tail    uint64
	Offset  uint64
}

func readMeta(b []byte) (m metaRec, ok bool) {
	if err := rlp.DecodeBytes(b, &m); err != nil {
		return m, false
	}
	return m, true
}

// materialize writes a crash state to a fresh scratch directory.
//
//	fsel 0: freezer files as on disk
//	fsel 1: the metadata records last fsync'ed (older virtual tail) where the flush offset
//	        is the same, and every index / data file physically cut to the flush offset
//	jsel 0: the journal file a running process would see; 1: the durable one
func materialize(cfg config, s *snapshot, fsel, jsel int) (*world, bool) {
	w := &world{cfg: cfg, base: scratchDir(), metaSynced: map[string][]byte{}}
	os.MkdirAll(w.frDir(), 0755)
	usedOld := false
	files := map[string][]byte{}
	for n, b := range s.fr {
		files[n] = b
	}
	if fsel == 1 {
		for n, cur := range s.fr {
			if !strings.HasSuffix(n, ".meta") {
				continue
			}
			old, ok := s.frMeta[n]
			mo, ok1 := readMeta(old)
			mc, ok2 := readMeta(cur)
			if ok && ok1 && ok2 && mo.Offset == mc.Offset {
				if mo.Tail != mc.Tail {
					usedOld = true
				}
				files[n] = old
			}
			// cut the unsynced index entries (and with them the data they point to)
			table := strings.TrimSuffix(n, ".meta")
			for _, ext := range []string{".ridx", ".cidx"} {
				if idx, ok := files[table+ext]; ok && ok2 && uint64(len(idx)) > mc.Offset && mc.Offset >= 6 {
					cut := idx[:mc.Offset]
					files[table+ext] = cut
					// data end offset of the last surviving entry
					last := cut[len(cut)-6:]
					fnum := int(last[0])<<8 | int(last[1])
					off := int(last[2])<<24 | int(last[3])<<16 | int(last[4])<<8 | int(last[5])
					if len(cut) == 6 {
						off = 0
					}
					for _, dext := range []string{"rdat", "cdat"} {
						dn := fmt.Sprintf("%s.%04d.%s", table, fnum, dext)
						if d, ok := files[dn]; ok && len(d) > off {
							files[dn] = d[:off]
						}
					}
				}
			}
		}
	}
	for n, b := range files {
		os.WriteFile(filepath.Join(w.frDir(), n), b, 0644)
	}
	if cfg.jfile {
		os.MkdirAll(w.jDir(), 0755)
		j := s.jlive
		if jsel == 1 {
			j = s.jdur
		}
		if j != nil {
			os.WriteFile(w.jPath(), j, 0644)
		}
		if s.jtmp != nil {
			os.WriteFile(w.jPath()+".tmp", s.jtmp, 0644)
		}
	}
	w.kv = rawdb.NewMemoryDatabase()
	for k, v := range s.kv {
		w.kv.Put([]byte(k), v)
	}
	w.lastAck = s.lastAck
	w.recFloor, w.recFloorSet = s.recFloor, s.recFloorSet
	return w, usedOld
}

// open runs pathdb.New on the world's stores; a log.Crit becomes an error class.
func (w *world) open() (cls int64, msg string) {
	w.rec = &recorder{w: w}
	w.wdb = &evDB{Database: w.kv, rec: w.rec, dir: w.ancientDir()}
	pcfg := &pathdb.Config{StateHistory: w.cfg.limit, WriteBufferSize: 64 * 1024 * 1024, NoAsyncFlush: true,
		NoAsyncGeneration: true, TrienodeHistory: -1, TrieCleanSize: 0, StateCleanSize: 0}
	if w.cfg.full {
		pcfg.WriteBufferSize = 0
	}
	if w.cfg.jfile {
		pcfg.JournalDirectory = w.jDir()
	}
	defer func() {
		if e := recover(); e != nil {
			cp, ok := e.(critPanic)
			if !ok {
				panic(e)
			}
			msg = cp.msg
			switch {
			case strings.Contains(msg, "gap between state"):
				cls = 1
			case strings.Contains(msg, "Failed to truncate extra histories"):
				cls = 2
			default:
				cls = 9
			}
		}
	}()
	pathdb.VerifC20SetMaxDiffLayers(w.cfg.maxdiff)
	w.db = pathdb.New(w.wdb, pcfg, false)
	if !w.db.VerifC20HasFreezer() {
		panic("no state freezer attached")
	}
	w.db.VerifC20WrapStateFreezer(func(in ethdb.ResettableAncientStore) ethdb.ResettableAncientStore {
		w.inner = in
		return &evFreezer{ResettableAncientStore: in, rec: w.rec}
	})
	w.metaSynced = w.readMetas() // repair() leaves every table's metadata fsync'ed
	return 0, ""
}

func (w *world) destroy() {
	if w.db != nil {
		w.db.Close()
	}
	os.RemoveAll(w.base)
}

// ---- environment: labels, reference states ------------------------------------------------------------------

type env struct {
	cfg       config
	w         *world
	labelRoot map[int64]common.Hash
	rootLabel map[common.Hash]int64
	snaps     map[int64]*refState
	parent    map[int64]int64 // label -> parent label
	idOf      map[int64]uint64
	head      int64
	addrIdx   map[common.Hash]int
	slotIdx   map[common.Hash]int
	block     uint64
	fails     []string
	tags      map[string]bool
	// lossy key-value probe (C20_LOSSY=1): key-value states since the last SyncKeyValue / open
	kvHist []map[string][]byte
}

func (e *env) failf(f string, a ...any) {
	if len(e.fails) < 6 {
		e.fails = append(e.fails, fmt.Sprintf(f, a...))
	}
}

func (e *env) rootOf(label int64) common.Hash {
	if h, ok := e.labelRoot[label]; ok {
		return h
	}
	return common.Hash{0xEE, byte(label >> 16), byte(label >> 8), byte(label)}
}
func (e *env) labelOf(h common.Hash) int64 {
	if l, ok := e.rootLabel[h]; ok {
		return l
	}
	return -1
}

type change struct {
	k         skey
	orig, new int64
}

// resolve turns a state-independent transition description into the change list on top of
// the head state: account 0 := v0; for every (a del va slots): del = delete the account and
// all its slots (skipped when absent), else account a := va and every slot (s v) := v
// (v = 0 deletes; skipped when absent).  Same rule as coq/Run/C20.v.
func (e *env) resolve(v0 int64, specs SL) []change {
	cur := e.snaps[e.head]
	newA := map[int]int64{0: v0}
	newS := map[skey]int64{}
	var orderS []skey
	setS := func(k skey, v int64) {
		if _, ok := newS[k]; !ok {
			orderS = append(orderS, k)
		}
		newS[k] = v
	}
	for _, sx := range specs {
		sp := AsList(sx)
		a, del, va := AsInt(sp[0]), AsBool(sp[1]), int64(AsInt(sp[2]))
		if a >= e.cfg.na || a < 0 {
			shape("account outside the universe")
		}
		if _, dup := newA[a]; dup && a != 0 {
			shape("account listed twice")
		}
		if del {
			if a == 0 {
				shape("account 0 is never deleted")
			}
			if _, ok := cur.acct[a]; !ok {
				continue
			}
			newA[a] = 0
			for s := 0; s < e.cfg.ns; s++ {
				if _, ok := cur.slot[skey{a, s}]; ok {
					setS(skey{a, s}, 0)
				}
			}
			continue
		}
		if a != 0 {
			newA[a] = va
		}
		for _, slx := range AsList(sp[3]) {
			sl := AsList(slx)
			k := skey{a, AsInt(sl[0])}
			if k.s >= e.cfg.ns || k.s < 0 {
				shape("slot outside the universe")
			}
			if _, dup := newS[k]; dup {
				shape("slot listed twice")
			}
			v := int64(AsInt(sl[1]))
			if _, ok := cur.slot[k]; !ok && v == 0 {
				continue
			}
			setS(k, v)
		}
	}
	var chs []change
	for a := 0; a < e.cfg.na; a++ {
		if v, ok := newA[a]; ok {
			chs = append(chs, change{skey{a, -1}, cur.acct[a], v})
		}
	}
	for _, k := range orderS {
		chs = append(chs, change{k, cur.slot[k], newS[k]})
	}
	return chs
}

// build turns an abstract transition on top of the head state into (root, nodes, states).
func (e *env) build(chs []change) (common.Hash, *trienode.MergedNodeSet, *pathdb.StateSetWithOrigin, *refState) {
	cur := e.snaps[e.head]
	parentRoot := e.rootOf(e.head)
	next := cur.copy()
	seen := map[skey]bool{}
	accts := map[int]change{}
	slots := map[int][]change{}
	var order []int
	for _, c := range chs {
		if seen[c.k] {
			shape("duplicate key in transition")
		}
		seen[c.k] = true
		if cur.val(c.k) != c.orig {
			shape("original value does not match the head state")
		}
		if c.orig == c.new {
			shape("change without effect")
		}
		if c.k.s < 0 {
			accts[c.k.a] = c
			order = append(order, c.k.a)
		} else {
			slots[c.k.a] = append(slots[c.k.a], c)
		}
	}
	if len(accts) == 0 {
		shape("transition without account change")
	}
	for a := range slots {
		if _, ok := accts[a]; !ok {
			shape("storage change without account change")
		}
	}
	sort.Ints(order)
	var (
		nodes         = trienode.NewMergedNodeSet()
		accounts      = map[common.Hash][]byte{}
		storages      = map[common.Hash]map[common.Hash][]byte{}
		accountOrigin = map[common.Address][]byte{}
		storageOrigin = map[common.Address]map[common.Hash][]byte{}
		trieVals      = map[common.Hash][]byte{}
	)
	for _, a := range order {
		c := accts[a]
		addr := addrOf(a)
		addrHash := crypto.Keccak256Hash(addr.Bytes())
		sroot := types.EmptyRootHash
		if r, ok := cur.sroot[a]; ok {
			sroot = r
		}
		if len(slots[a]) > 0 {
			st, err := trie.New(trie.StorageTrieID(parentRoot, addrHash, sroot), e.w.db)
			if err != nil {
				panic(fmt.Errorf("open storage trie: %w", err))
			}
			sset := map[common.Hash][]byte{}
			oset := map[common.Hash][]byte{}
			for _, sc := range slots[a] {
				key := slotKeyOf(sc.k.s)
				kh := crypto.Keccak256Hash(key.Bytes())
				blob := slotBlob(sc.new)
				if sc.new == 0 {
					st.Delete(kh.Bytes())
					delete(next.slot, sc.k)
					delete(next.flat, sc.k)
				} else {
					st.Update(kh.Bytes(), blob)
					next.slot[sc.k] = sc.new
					next.flat[sc.k] = blob
				}
				sset[kh] = blob
				oset[key] = slotBlob(sc.orig)
			}
			nr, set := st.Commit(false)
			if set != nil {
				if err := nodes.Merge(set); err != nil {
					panic(err)
				}
			}
			sroot = nr
			storages[addrHash] = sset
			storageOrigin[addr] = oset
		}
		if c.new == 0 {
			if sroot != types.EmptyRootHash {
				shape("account deleted with live storage")
			}
			delete(next.acct, a)
			delete(next.sroot, a)
			delete(next.flat, skey{a, -1})
			accounts[addrHash] = nil
			trieVals[addrHash] = nil
		} else {
			acc := acctOf(a, c.new, sroot)
			slim := types.SlimAccountRLP(acc)
			full, _ := rlp.EncodeToBytes(&acc)
			next.acct[a] = c.new
			next.sroot[a] = sroot
			next.flat[skey{a, -1}] = slim
			accounts[addrHash] = slim
			trieVals[addrHash] = full
		}
		if c.orig == 0 {
			for _, sc := range slots[a] {
				if sc.orig != 0 {
					shape("slot of an absent account")
				}
			}
			accountOrigin[addr] = nil
		} else {
			accountOrigin[addr] = cur.flat[skey{a, -1}]
		}
	}
	tr, err := trie.New(trie.StateTrieID(parentRoot), e.w.db)
	if err != nil {
		panic(fmt.Errorf("open account trie: %w", err))
	}
	for _, a := range order {
		h := crypto.Keccak256Hash(addrOf(a).Bytes())
		if v := trieVals[h]; len(v) == 0 {
			tr.Delete(h.Bytes())
		} else {
			tr.Update(h.Bytes(), v)
		}
	}
	root, set := tr.Commit(false)
	if set != nil {
		if err := nodes.Merge(set); err != nil {
			panic(err)
		}
	}
	states := pathdb.NewStateSetWithOrigin(accounts, storages, accountOrigin, storageOrigin, true)
	return root, nodes, states, next
}

// ---- observations ------------------------------------------------------------------------------------------

func (e *env) universe() []skey {
	var out []skey
	for a := 0; a < e.cfg.na; a++ {
		out = append(out, skey{a, -1})
		for s := 0; s < e.cfg.ns; s++ {
			out = append(out, skey{a, s})
		}
	}
	return out
}

type rlpReader interface {
	AccountRLP(hash common.Hash) ([]byte, error)
	Storage(accountHash, storageHash common.Hash) ([]byte, error)
}

// effDump reads every key of the universe through the disk layer.
func (e *env) effDump(w *world) (map[skey][]byte, error) {
	root, _, _ := w.db.VerifC20Disk()
	sr, err := w.db.StateReader(root)
	if err != nil {
		return nil, err
	}
	r := sr.(rlpReader)
	out := map[skey][]byte{}
	for _, k := range e.universe() {
		ah := crypto.Keccak256Hash(addrOf(k.a).Bytes())
		var blob []byte
		if k.s < 0 {
			blob, err = r.AccountRLP(ah)
		} else {
			blob, err = r.Storage(ah, crypto.Keccak256Hash(slotKeyOf(k.s).Bytes()))
		}
		if err != nil {
			return nil, err
		}
		if len(blob) > 0 {
			out[k] = append([]byte{}, blob...)
		}
	}
	return out, nil
}

// rawDump iterates the snapshot keyspace of the key-value store.
func (e *env) rawDump(w *world) (map[skey][]byte, string) {
	out := map[skey][]byte{}
	it := w.kv.NewIterator(rawdb.SnapshotAccountPrefix, nil)
	for it.Next() {
		k := it.Key()
		if len(k) != 1+common.HashLength {
			continue
		}
		a, ok := e.addrIdx[common.BytesToHash(k[1:])]
		if !ok {
			it.Release()
			return nil, fmt.Sprintf("foreign account %x in the snapshot keyspace", k[1:])
		}
		out[skey{a, -1}] = append([]byte{}, it.Value()...)
	}
	it.Release()
	it = w.kv.NewIterator(rawdb.SnapshotStoragePrefix, nil)
	for it.Next() {
		k := it.Key()
		if len(k) != 1+2*common.HashLength {
			continue
		}
		a, ok := e.addrIdx[common.BytesToHash(k[1:33])]
		s, ok2 := e.slotIdx[common.BytesToHash(k[33:])]
		if !ok || !ok2 {
			it.Release()
			return nil, fmt.Sprintf("foreign slot %x in the snapshot keyspace", k[1:])
		}
		out[skey{a, s}] = append([]byte{}, it.Value()...)
	}
	it.Release()
	return out, ""
}

func (e *env) dumpSx(m map[skey][]byte) Sx {
	var items SL
	for _, k := range e.universe() {
		if k.s < 0 {
			items = append(items, I(acctVal(m[k])))
		} else {
			items = append(items, I(slotVal(m[k])))
		}
	}
	return items
}

func sameDump(a, b map[skey][]byte) string {
	for k, v := range a {
		if !bytes.Equal(v, b[k]) {
			return fmt.Sprintf("key (%d,%d): %x vs %x", k.a, k.s, v, b[k])
		}
	}
	for k, v := range b {
		if _, ok := a[k]; !ok {
			return fmt.Sprintf("key (%d,%d): absent vs %x", k.a, k.s, v)
		}
	}
	return ""
}

// checkTries verifies that the tries of root hold exactly the reference state.
func (e *env) checkTries(w *world, root common.Hash, ref *refState) string {
	tr, err := trie.New(trie.StateTrieID(root), w.db)
	if err != nil {
		return "account trie cannot be opened: " + err.Error()
	}
	for a := 0; a < e.cfg.na; a++ {
		ah := crypto.Keccak256Hash(addrOf(a).Bytes())
		blob, err := tr.Get(ah.Bytes())
		if err != nil {
			return "account trie read failed: " + err.Error()
		}
		v, ok := ref.acct[a]
		if !ok {
			if len(blob) != 0 {
				return fmt.Sprintf("account %d present in the trie", a)
			}
			continue
		}
		acc := acctOf(a, v, ref.sroot[a])
		full, _ := rlp.EncodeToBytes(&acc)
		if !bytes.Equal(full, blob) {
			return fmt.Sprintf("account %d differs in the trie", a)
		}
		st, err := trie.New(trie.StorageTrieID(root, ah, ref.sroot[a]), w.db)
		if err != nil {
			return "storage trie cannot be opened: " + err.Error()
		}
		for s := 0; s < e.cfg.ns; s++ {
			sb, err := st.Get(crypto.Keccak256Hash(slotKeyOf(s).Bytes()).Bytes())
			if err != nil {
				return "storage trie read failed: " + err.Error()
			}
			if !bytes.Equal(sb, ref.flat[skey{a, s}]) {
				return fmt.Sprintf("slot (%d,%d) differs in the trie", a, s)
			}
		}
	}
	return ""
}

// obsWorld: the observables of an open database.
func (e *env) obsWorld(w *world) Sx {
	root, id, bl := w.db.VerifC20Disk()
	head, tail, ferr := w.db.VerifC20FreezerRange()
	if ferr != nil {
		panic(ferr)
	}
	effm, err := e.effDump(w)
	if err != nil {
		e.failf("disk layer unreadable: %v", err)
		effm = map[skey][]byte{}
	}
	raw, bad := e.rawDump(w)
	if bad != "" {
		e.failf("%s", bad)
		raw = map[skey][]byte{}
	}
	return L(I(e.labelOf(root)), U(id), U(bl), I(int64(w.db.VerifC20Layers()-1)), U(head), U(tail),
		U(rawdb.ReadPersistentStateID(w.kv)), e.dumpSx(effm), e.dumpSx(raw))
}

// oracle: the property itself, checked on a freshly reopened database.
func (e *env) oracle(w *world, where string) {
	root, id, bl := w.db.VerifC20Disk()
	head, tail, _ := w.db.VerifC20FreezerRange()
	pid := rawdb.ReadPersistentStateID(w.kv)
	label := e.labelOf(root)
	ref := e.snaps[label]
	if ref == nil {
		e.failf("%s: disk root after reopen is not a root that was ever committed", where)
		return
	}
	if want, ok := e.idOf[label]; !ok || want != id {
		e.failf("%s: reopened disk layer id %d, but root %d was committed with id %d", where, id, label, want)
	}
	if head != id {
		e.failf("%s: state history head %d not aligned with the state id %d", where, head, id)
	}
	if tail > id {
		e.failf("%s: state history tail %d above the state id %d", where, tail, id)
	}
	if pid+bl != id {
		e.failf("%s: persistent id %d + buffered layers %d != disk layer id %d", where, pid, bl, id)
	}
	if id < w.lastAck {
		e.failf("%s: acknowledged persistent state id %d lost (reopened at %d)", where, w.lastAck, id)
	}
	// the history of the reopened state itself is retained (writeHistory never prunes the
	// history of the persisted state), unless nothing was ever pruned or a rollback ended
	// exactly on the tail: otherwise the reopened state cannot be rolled back at all
	if tail > 0 && id <= tail && !(w.recFloorSet && w.recFloor == tail) {
		e.failf("%s: reopened at state id %d with history tail %d: the history of the persisted state was pruned, no rollback from the reopened state is possible", where, id, tail)
	}
	effm, err := e.effDump(w)
	if err != nil {
		e.failf("%s: disk layer unreadable after reopen: %v", where, err)
	} else if d := sameDump(ref.flat, effm); d != "" {
		e.failf("%s: flat state after reopen differs from the state of root %d: %s", where, label, d)
	}
	// the persisted flat state must be the state of the persisted root
	proot := types.EmptyRootHash
	if blob := rawdb.ReadAccountTrieNode(w.kv, nil); len(blob) > 0 {
		proot = crypto.Keccak256Hash(blob)
	}
	if pref := e.snaps[e.labelOf(proot)]; pref == nil {
		e.failf("%s: persisted root unknown", where)
	} else {
		raw, bad := e.rawDump(w)
		if bad != "" {
			e.failf("%s: %s", where, bad)
		} else if d := sameDump(pref.flat, raw); d != "" {
			e.failf("%s: persisted flat state differs from the state of the persisted root %d: %s", where, e.labelOf(proot), d)
		}
		if want := e.idOf[e.labelOf(proot)]; want != pid {
			e.failf("%s: persistent state id %d, persisted root %d has id %d", where, pid, e.labelOf(proot), want)
		}
	}
	if t := e.checkTries(w, root, ref); t != "" {
		e.failf("%s: trie at the reopened root: %s", where, t)
	}
	// the retained histories must be the ones of the chain leading to the disk layer:
	// every retained ancestor is reported recoverable
	l := label
	for i := id; i > tail && i > 0; i-- {
		p, ok := e.parent[l]
		if !ok {
			break
		}
		if !w.db.Recoverable(e.rootOf(p)) {
			e.failf("%s: ancestor %d (id %d) of the reopened disk layer is not recoverable (tail %d)", where, p, i-1, tail)
			break
		}
		l = p
	}
}

// recoverSmoke rolls the reopened database back by up to two states.
func (e *env) recoverSmoke(w *world, where string) {
	root, id, _ := w.db.VerifC20Disk()
	_, tail, _ := w.db.VerifC20FreezerRange()
	l := e.labelOf(root)
	steps := 0
	for i := id; i > tail && steps < 2; i-- {
		p, ok := e.parent[l]
		if !ok {
			return
		}
		l = p
		steps++
	}
	if steps == 0 {
		return
	}
	if err := w.db.Recover(e.rootOf(l)); err != nil {
		if !errors.Is(err, pathdb.VerifC20ErrReadOnly) {
			e.failf("%s: Recover to ancestor %d after reopen failed: %v", where, l, err)
		}
		return
	}
	e.tags["recover-smoke"] = true
	nroot, nid, _ := w.db.VerifC20Disk()
	if nroot != e.rootOf(l) || nid != id-uint64(steps) {
		e.failf("%s: after Recover disk layer is (%d,%d), want (%d,%d)", where, e.labelOf(nroot), nid, l, id-uint64(steps))
	}
	effm, err := e.effDump(w)
	if err != nil {
		e.failf("%s: unreadable after Recover: %v", where, err)
	} else if d := sameDump(e.snaps[l].flat, effm); d != "" {
		e.failf("%s: flat state after Recover differs from the state of root %d: %s", where, l, d)
	}
	if t := e.checkTries(w, e.rootOf(l), e.snaps[l]); t != "" {
		e.failf("%s: trie after Recover: %s", where, t)
	}
}

// reopenObs materializes one crash state, reopens it, observes and checks it.
func (e *env) reopenObs(s *snapshot, fsel, jsel int, where string, smoke bool) Sx {
	w, usedOld := materialize(e.cfg, s, fsel, jsel)
	defer w.destroy()
	if usedOld {
		e.tags["old-tail"] = true
	}
	cls, msg := w.open()
	if cls != 0 {
		e.tags[fmt.Sprintf("reopen-error%d", cls)] = true
		e.failf("%s: reopen failed (class %d): %s", where, cls, msg)
		w.db = nil
		return L(I(cls))
	}
	obs := e.obsWorld(w)
	if _, _, bl := w.db.VerifC20Disk(); bl > 0 || w.db.VerifC20Layers() > 1 {
		e.tags["journal-loaded"] = true
	}
	e.oracle(w, where)
	// second reopen (a crash during / right after recovery): same observation
	w.db.Close()
	w.db = nil
	if cls2, msg2 := w.open(); cls2 != 0 {
		e.failf("%s: second reopen failed (class %d): %s", where, cls2, msg2)
		w.db = nil
		return L(I(0), obs)
	}
	if obs2 := e.obsWorld(w); String(obs2) != String(obs) {
		e.failf("%s: reopening twice gives %s then %s", where, String(obs), String(obs2))
	}
	if smoke {
		e.recoverSmoke(w, where)
	}
	return L(I(0), obs)
}

// ---- running one case -------------------------------------------------------------------------------------------

func errClass(err error) int64 {
	switch {
	case err == nil:
		return 0
	case errors.Is(err, pathdb.VerifC20ErrReadOnly):
		return 3
	case errors.Is(err, pathdb.VerifC20ErrUnrecoverable):
		return 4
	}
	return 9
}

func run(c Sx) Result {
	l := AsList(c)
	cf := AsList(l[0])
	cfg := config{limit: AsU64(cf[0]), full: AsBool(cf[1]), maxdiff: AsInt(cf[2]), jfile: AsBool(cf[3]), na: AsInt(cf[4]), ns: AsInt(cf[5])}
	if cfg.na > 64 || cfg.ns > 64 || cfg.maxdiff < 1 {
		shape("configuration out of range")
	}
	log.SetDefault(log.NewLogger(critHandler{}))
	e := &env{cfg: cfg, labelRoot: map[int64]common.Hash{0: types.EmptyRootHash}, rootLabel: map[common.Hash]int64{types.EmptyRootHash: 0},
		snaps: map[int64]*refState{0: newRef()}, parent: map[int64]int64{}, idOf: map[int64]uint64{0: 0},
		addrIdx: map[common.Hash]int{}, slotIdx: map[common.Hash]int{}, tags: map[string]bool{}}
	for a := 0; a < cfg.na; a++ {
		e.addrIdx[crypto.Keccak256Hash(addrOf(a).Bytes())] = a
	}
	for s := 0; s < cfg.ns; s++ {
		e.slotIdx[crypto.Keccak256Hash(slotKeyOf(s).Bytes())] = s
	}
	// the initial world: an empty database whose (empty) snapshot generation has completed
	w := &world{cfg: cfg, base: scratchDir(), metaSynced: map[string][]byte{}}
	os.MkdirAll(w.ancientDir(), 0755)
	if cfg.jfile {
		os.MkdirAll(w.jDir(), 0755)
	}
	w.kv = rawdb.NewMemoryDatabase()
	if cls, msg := w.open(); cls != 0 {
		panic("fresh database does not open: " + msg)
	}
	e.w = w
	defer func() { e.w.destroy() }()

	var (
		res     Result
		obs     SL
		ncrash  int
		nevents int
	)
	e.tags[fmt.Sprintf("limit%d", min(cfg.limit, 9))] = true
	e.tags[fmt.Sprintf("full%v", cfg.full)] = true
	e.tags[fmt.Sprintf("jfile%v", cfg.jfile)] = true

	for oi, opx := range l[1:] {
		op := AsList(opx)
		// a crash operation wraps the operation during which the process dies
		crashAt, cfs, cjs := -1, 0, 0
		if AsInt(op[0]) == 4 {
			crashAt, cfs, cjs = AsInt(op[1]), AsInt(op[2]), AsInt(op[3])
			op = AsList(op[4])
		}
		w := e.w
		w.rec.kinds, w.rec.snaps = nil, nil
		initial := w.snapshot()
		w.rec.on = true
		var (
			errc   int64
			undo   func()
			jOld      []byte
			isJour    bool
			isRecover bool
		)
		switch AsInt(op[0]) {
		case 0: // Update: every transition sets account 0 to a fresh value
			label := int64(AsInt(op[1]))
			chs := e.resolve(int64(AsInt(op[2])), AsList(op[3]))
			w.rec.on = false
			root, nodes, states, next := e.build(chs)
			w.rec.on = true
			if _, ok := e.labelRoot[label]; ok {
				shape("root label used twice")
			} else if _, dup := e.rootLabel[root]; dup {
				shape("two labels for one root")
			}
			e.block++
			err := w.db.Update(root, e.rootOf(e.head), e.block, nodes, states)
			errc = errClass(err)
			if err == nil {
				prevHead := e.head
				e.labelRoot[label], e.rootLabel[root] = root, label
				e.snaps[label] = next
				e.parent[label] = prevHead
				e.idOf[label] = e.idOf[prevHead] + 1
				e.head = label
				undo = func() { e.head = prevHead }
			}
		case 1: // Commit of the p-th diff layer counted from the top
			nd := w.db.VerifC20Layers() - 1
			if nd == 0 {
				root, _, _ := w.db.VerifC20Disk()
				errc = errClass(w.db.Commit(root, false))
				break
			}
			label := e.head
			for i := 0; i < AsInt(op[1])%nd; i++ {
				label = e.parent[label]
			}
			err := w.db.Commit(e.rootOf(label), false)
			errc = errClass(err)
			if err == nil {
				prevHead := e.head
				e.head = label
				undo = func() { e.head = prevHead }
			}
		case 2: // Journal(head)
			isJour = true
			if cfg.jfile {
				jOld = readFileOrNil(w.jPath())
			}
			err := w.db.Journal(e.rootOf(e.head))
			errc = errClass(err)
		case 5: // Recover to the ancestor k states below the disk layer (not beyond the tail)
			root, id, _ := w.db.VerifC20Disk()
			_, tail, _ := w.db.VerifC20FreezerRange()
			lb := e.labelOf(root)
			steps := 0
			for i := id; i > tail && steps < AsInt(op[1]); i-- {
				p, ok := e.parent[lb]
				if !ok {
					break
				}
				lb = p
				steps++
			}
			isRecover = true
			if cfg.jfile {
				jOld = readFileOrNil(w.jPath())
			}
			oldFloor, oldFloorSet := w.recFloor, w.recFloorSet
			if steps > 0 && id-uint64(steps) == tail {
				w.recFloor, w.recFloorSet = tail, true
			}
			err := w.db.Recover(e.rootOf(lb))
			errc = errClass(err)
			if err != nil {
				w.recFloor, w.recFloorSet = oldFloor, oldFloorSet
			}
			if err == nil {
				prevHead := e.head
				e.head = lb
				undo = func() { e.head = prevHead }
				e.tags["recover-op"] = true
			}
		case 3: // clean Close + reopen
			w.rec.on = false
			w.db.Close()
			w.db = nil
			if cls, msg := w.open(); cls != 0 {
				e.failf("op %d: clean reopen failed (class %d): %s", oi, cls, msg)
				res.Obs = obs
				res.Oracle = fmt.Sprint(e.fails)
				w.db = nil
				return res
			}
			root, _, _ := w.db.VerifC20Disk()
			e.head = e.labelOf(root)
			// the head is the top of the reloaded layer stack
			e.head = e.topLabel(w)
			e.oracle(w, fmt.Sprintf("op %d clean reopen", oi))
		default:
			shape("unknown op")
		}
		w.rec.on = false
		w.lastAck = rawdb.ReadPersistentStateID(w.kv)
		for _, v := range w.rec.violations {
			e.failf("op %d: %s", oi, v)
		}
		w.rec.violations = nil
		kinds := append([]int64{}, w.rec.kinds...)
		snaps := append([]*snapshot{initial}, w.rec.snaps...)
		// the journal file protocol (temp file, fsync, rename, directory fsync) is not
		// visible to the interposers: its four crash points are synthesized
		if isJour && cfg.jfile && errc == 0 {
			jNew := readFileOrNil(w.jPath())
			last := snaps[len(snaps)-1]
			mk := func(live, dur, tmp []byte) *snapshot {
				s := *last
				s.jlive, s.jdur, s.jtmp = live, dur, tmp
				return &s
			}
			kinds = append(kinds, evJTmp, evJTmpSync, evJRename, evJDirSync)
			snaps = append(snaps, mk(jOld, jOld, jNew), mk(jOld, jOld, jNew), mk(jNew, jOld, nil), mk(jNew, jNew, nil))
			last.jlive, last.jdur = jOld, jOld
			for _, s := range snaps[:len(snaps)-4] {
				s.jlive, s.jdur = jOld, jOld
			}
			e.tags["journal-file"] = true
		}
		// Recover removes the journal file (os.Remove + directory fsync) before the blob is
		// deleted and the histories are cut: two synthesized crash points
		if isRecover {
			for _, s := range snaps {
				s.lastAck = 0 // a rollback lowers the persistent state id on purpose
			}
			if cfg.jfile && jOld != nil && readFileOrNil(w.jPath()) == nil {
				// the removal happened before the first real event that no longer saw the file
				pos := len(kinds)
				for i := 1; i < len(snaps); i++ {
					if snaps[i].jlive == nil {
						pos = i - 1
						break
					}
				}
				for _, s := range snaps[:pos+1] {
					s.jlive, s.jdur = jOld, jOld
				}
				base := snaps[pos]
				mk := func(live, dur []byte) *snapshot {
					s := *base
					s.jlive, s.jdur = live, dur
					return &s
				}
				nk := append(append(append([]int64{}, kinds[:pos]...), evJRemove, evJDirSync), kinds[pos:]...)
				ns := append(append(append([]*snapshot{}, snaps[:pos+1]...), mk(nil, jOld), mk(nil, nil)), snaps[pos+1:]...)
				kinds, snaps = nk, ns
				e.tags["journal-file-dropped"] = true
			}
		}
		var kindSx SL
		for _, k := range kinds {
			kindSx = append(kindSx, I(k))
			e.tags[fmt.Sprintf("ev%d", k)] = true
		}
		nevents += len(kinds)
		var after Sx = L()
		if w.db != nil {
			after = e.obsWorld(w)
		}
		// every crash point x every cut
		var crashObs SL
		for i, s := range snaps {
			var per SL
			if lossyProbe {
				if w.rec.kvSynced || AsInt(op[0]) == 3 {
					e.kvHist, w.rec.kvSynced = nil, false
				}
				for j := len(e.kvHist) - 1; j >= 0 && j >= len(e.kvHist)-4; j-- {
					s2 := *s
					s2.kv = e.kvHist[j]
					s2.lastAck = 0
					e.reopenObs(&s2, 0, 0, fmt.Sprintf("LOSSY-KV op %d event %d/%d kv %d writes behind", oi, i, len(snaps)-1, len(e.kvHist)-j), false)
				}
				e.kvHist = append(e.kvHist, s.kv)
			}
			for fsel := 0; fsel < 2; fsel++ {
				njs := 1
				if cfg.jfile {
					njs = 2
				}
				for jsel := 0; jsel < njs; jsel++ {
					where := fmt.Sprintf("op %d crash after event %d/%d (cut %d,%d)", oi, i, len(snaps)-1, fsel, jsel)
					per = append(per, e.reopenObs(s, fsel, jsel, where, fsel == 0 && jsel == 0))
					ncrash++
				}
			}
			crashObs = append(crashObs, per)
		}
		obs = append(obs, L(I(errc), kindSx, after, crashObs))
		if crashAt >= 0 {
			// the process dies after event crashAt of this operation: that crash state
			// becomes the live database
			i := crashAt % len(snaps)
			if undo != nil {
				undo()
			}
			nw, _ := materialize(cfg, snaps[i], cfs%2, cjs%2)
			if cls, msg := nw.open(); cls != 0 {
				e.failf("op %d: reopen of the chosen crash state failed (class %d): %s", oi, cls, msg)
				nw.db = nil
				nw.destroy()
				break
			}
			e.w.destroy()
			e.w = nw
			e.head = e.topLabel(nw)
			e.tags["crash-continue"] = true
			e.kvHist = nil
		}
	}
	res.Obs = obs
	if len(e.fails) > 0 {
		res.Oracle = strings.Join(e.fails, " | ")
	}
	res.NonTrivial = ncrash >= 8 && nevents >= 4
	for t := range e.tags {
		res.Tags = append(res.Tags, t)
	}
	sort.Strings(res.Tags)
	return res
}

// topLabel finds the label of the top layer of the (linear) layer stack of w.
func (e *env) topLabel(w *world) int64 {
	root, _, _ := w.db.VerifC20Disk()
	cur := e.labelOf(root)
	n := w.db.VerifC20Layers() - 1
	for i := 0; i < n; i++ {
		found := false
		var cands []int64
		for l, p := range e.parent {
			if p == cur {
				cands = append(cands, l)
			}
		}
		sort.Slice(cands, func(a, b int) bool { return cands[a] < cands[b] })
		for _, l := range cands {
			if _, err := w.db.NodeReader(e.rootOf(l)); err == nil {
				cur, found = l, true
				break
			}
		}
		if !found {
			break
		}
	}
	return cur
}

// ---- generator -----------------------------------------------------------------------------------------------

type gsim struct {
	r      *Rng
	na, ns int
	label  int64
	val    int64
}

func (g *gsim) fresh() int64 { g.val++; return g.val }

func (g *gsim) update() Sx {
	r := g.r
	g.label++
	var specs SL
	used := map[int]bool{}
	for i, n := 0, r.Intn(3); i < n; i++ {
		a := r.Intn(g.na)
		if used[a] {
			continue
		}
		used[a] = true
		if a != 0 && r.Chance(1, 6) {
			specs = append(specs, L(I(int64(a)), I(1), I(0), L()))
			continue
		}
		var slots SL
		su := map[int]bool{}
		for j, m := 0, r.Intn(3); j < m; j++ {
			s := r.Intn(g.ns)
			if su[s] {
				continue
			}
			su[s] = true
			v := g.fresh()
			if r.Chance(1, 4) {
				v = 0
			}
			slots = append(slots, L(I(int64(s)), I(v)))
		}
		specs = append(specs, L(I(int64(a)), I(0), I(g.fresh()), slots))
	}
	return L(I(0), I(g.label), I(g.fresh()), specs)
}

func (g *gsim) mutating() Sx {
	switch x := g.r.Intn(100); {
	case x < 60:
		return g.update()
	case x < 78:
		return L(I(1), I(int64(g.r.Intn(4))))
	case x < 90:
		return L(I(5), I(int64(1+g.r.Intn(3))))
	default:
		return L(I(2))
	}
}

func genCase(r *Rng, maxOps int) Sx {
	g := &gsim{r: r, na: 2 + r.Intn(3), ns: 2 + r.Intn(2)}
	limits := []int{0, 0, 1, 2, 3}
	cfg := L(I(int64(limits[r.Intn(len(limits))])), Bool(r.Chance(1, 3)), I(int64(1+r.Intn(3))), Bool(r.Chance(1, 3)), I(int64(g.na)), I(int64(g.ns)))
	ops := SL{cfg}
	for i, n := 0, 5+r.Intn(maxOps-4); i < n; i++ {
		switch x := r.Intn(100); {
		case x < 50:
			ops = append(ops, g.update())
		case x < 62:
			ops = append(ops, L(I(1), I(int64(r.Intn(4)))))
		case x < 72: // clean shutdown: Journal, then reopen (sometimes something in between)
			ops = append(ops, L(I(2)))
			if r.Chance(1, 4) {
				ops = append(ops, g.mutating())
			}
			ops = append(ops, L(I(3)))
		case x < 76:
			ops = append(ops, L(I(3)))
		case x < 84: // rollback
			ops = append(ops, L(I(5), I(int64(1+r.Intn(3)))))
		default: // the process dies during an operation
			ops = append(ops, L(I(4), I(int64(r.Intn(12))), I(int64(r.Intn(2))), I(int64(r.Intn(2))), g.mutating()))
		}
	}
	return ops
}

func gen(r *Rng, tier string, emit func(Sx)) {
	r = NewRng(r.U64())
	n, maxOps := 40, 14
	if tier == "thorough" {
		n, maxOps = 600, 30
	}
	for i := 0; i < n; i++ {
		emit(genCase(r.Fork(), maxOps))
	}
}

var lossyProbe = os.Getenv("C20_LOSSY") != ""

func main() {
	Main(Family{
		ID:   "C20",
		Rule: "random linear histories (5-14 operations) of real state transitions (2-4 accounts x 2-3 slots, built as real trie node sets) on a pathdb.Database over a wrapped memory key-value store and a real file state freezer: Update, Commit(head or middle layer), Journal (key-value blob or journal file), clean Close+reopen, and crash operations (the process dies after a chosen persistence event of an operation with a chosen cut, and the history continues on the reopened crash state); StateHistory limit 0..3, WriteBufferSize 0 or 64 MiB, maxDiffLayers 1..3. After every persistence event, 2 (x2 with a journal file) crash cuts are reopened. Non-trivial: at least 4 persistence events and 8 reopened crash states; distinct = distinct case line.",
		Gen:  gen,
		Run:  run,
	})
}
