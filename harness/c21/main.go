// Family c21: triedb/hashdb/database.go (reference-counted dirty node cache, flush
// list, Cap, Commit) driven through triedb.Database vs coq/Storage/HashDB.v.
//
// case  (cns ideal world ops extra)
//   world ((id size (kid ...)) ...)             abstract node graph handed to the model
//   ops   (0 (node ...) ((child parent) ...) sets)   Update; sets = ((owner ((x<path> id) ...) ((parent child) ...)) ...)
//         (1 child parent) (2 root) (3 limit) (4 root)
//   extra ((id kind x<bytes>) ...)              kind 0: node blob, kind 1: bare hash (dangling)
package main

import (
	"bytes"
	"fmt"
	"sort"

	"github.com/ethereum/go-ethereum/common"
	"github.com/ethereum/go-ethereum/core/rawdb"
	"github.com/ethereum/go-ethereum/core/types"
	"github.com/ethereum/go-ethereum/crypto"
	"github.com/ethereum/go-ethereum/ethdb"
	"github.com/ethereum/go-ethereum/rlp"
	"github.com/ethereum/go-ethereum/trie"
	"github.com/ethereum/go-ethereum/trie/trienode"
	"github.com/ethereum/go-ethereum/triedb"
	"github.com/ethereum/go-ethereum/triedb/database"
	"github.com/ethereum/go-ethereum/triedb/hashdb"
	. "gethverif/harness/hxlib"
	"github.com/holiman/uint256"
)

// ---------------------------------------------------------------- shared helpers

func gather(blob []byte) []common.Hash {
	var out []common.Hash
	trie.ForGatherChildren(blob, func(h common.Hash) { out = append(out, h) })
	return out
}

// safeGather turns the decoder's panic on a blob that is not a trie node (a shrink
// candidate) into a harness shape error.
func safeGather(blob []byte) (out []common.Hash) {
	defer func() {
		if recover() != nil {
			panic("hxlib: blob is not a trie node")
		}
	}()
	return gather(blob)
}

func leafBlob(root common.Hash) []byte {
	b, _ := rlp.EncodeToBytes(&types.StateAccount{Nonce: 1, Balance: uint256.NewInt(1), Root: root, CodeHash: types.EmptyCodeHash[:]})
	return b
}

// universe assigns small ids to hashes in order of first appearance.
type universe struct {
	ids   map[common.Hash]int
	hash  []common.Hash // id-1 -> hash
	blob  [][]byte      // id-1 -> blob (nil = bare)
	kids  [][]int
	known []bool
}

func newUniverse() *universe { return &universe{ids: map[common.Hash]int{}} }

func (u *universe) id(h common.Hash) int {
	if i, ok := u.ids[h]; ok {
		return i
	}
	u.hash = append(u.hash, h)
	u.blob = append(u.blob, nil)
	u.kids = append(u.kids, nil)
	u.known = append(u.known, false)
	u.ids[h] = len(u.hash)
	return len(u.hash)
}

func (u *universe) add(blob []byte) int {
	h := crypto.Keccak256Hash(blob)
	i := u.id(h)
	if !u.known[i-1] {
		u.known[i-1] = true
		u.blob[i-1] = blob
		var ks []int
		for _, c := range gather(blob) {
			ks = append(ks, u.id(c))
		}
		u.kids[i-1] = ks
	}
	return i
}

func ints(l []int) Sx {
	out := SL{}
	for _, x := range l {
		out = append(out, I(int64(x)))
	}
	return out
}

func (u *universe) world() (Sx, Sx) {
	w, e := SL{}, SL{}
	for i := range u.hash {
		w = append(w, L(I(int64(i+1)), I(int64(len(u.blob[i]))), ints(u.kids[i])))
		if u.known[i] {
			e = append(e, L(I(int64(i+1)), I(0), B(u.blob[i])))
		} else {
			e = append(e, L(I(int64(i+1)), I(1), B(u.hash[i][:])))
		}
	}
	return w, e
}

type pathNode struct {
	path string
	id   int
}
type gset struct {
	owner  byte
	nodes  []pathNode
	leaves [][2]int // (parent, child)
}

// updateOp renders an Update: the insertion order is what hashdb.Update derives from
// the sets (sets in the given order, each by descending path).
func updateOp(sets []gset) Sx {
	var order []int
	refs := SL{}
	ss := SL{}
	for _, s := range sets {
		ps := append([]pathNode{}, s.nodes...)
		sort.Slice(ps, func(i, j int) bool { return ps[i].path > ps[j].path })
		ns := SL{}
		for _, p := range ps {
			order = append(order, p.id)
			ns = append(ns, L(B([]byte(p.path)), I(int64(p.id))))
		}
		ls := SL{}
		for _, l := range s.leaves {
			ls = append(ls, L(I(int64(l[0])), I(int64(l[1]))))
			if s.owner == 0 {
				refs = append(refs, L(I(int64(l[1])), I(int64(l[0]))))
			}
		}
		ss = append(ss, L(I(int64(s.owner)), ns, ls))
	}
	return L(I(0), ints(order), refs, ss)
}

// ---------------------------------------------------------------- generator: real tries

type memStore map[common.Hash][]byte

func (m memStore) NodeReader(common.Hash) (database.NodeReader, error) { return m, nil }
func (m memStore) Node(owner common.Hash, path []byte, hash common.Hash) ([]byte, error) {
	return m[hash], nil
}

type acct struct {
	nonce uint64
	slots map[byte]byte
	root  common.Hash
}

func slotKey(i byte) []byte  { return crypto.Keccak256([]byte{'s', i}) }
func acctKey(i byte) []byte  { return crypto.Keccak256([]byte{'a', i}) }
func slotVal(v byte) []byte  { return bytes.Repeat([]byte{v}, 33) }
func ownerOf(i byte) common.Hash { return common.BytesToHash(acctKey(i)) }

func setOf(u *universe, store memStore, owner byte, ns *trienode.NodeSet) gset {
	g := gset{owner: owner}
	if ns == nil {
		return g
	}
	var paths []string
	for p, n := range ns.Nodes {
		if !n.IsDeleted() {
			paths = append(paths, p)
		}
	}
	sort.Sort(sort.Reverse(sort.StringSlice(paths)))
	for _, p := range paths {
		n := ns.Nodes[p]
		store[n.Hash] = n.Blob
		g.nodes = append(g.nodes, pathNode{p, u.add(n.Blob)})
	}
	for _, l := range ns.Leaves {
		var a types.StateAccount
		if rlp.DecodeBytes(l.Blob, &a) == nil && a.Root != types.EmptyRootHash {
			if _, ok := u.ids[a.Root]; !ok {
				panic("storage root never seen")
			}
			g.leaves = append(g.leaves, [2]int{u.id(l.Parent), u.id(a.Root)})
		}
	}
	// the committer collects leaves concurrently for large tries: fix the order
	sort.Slice(g.leaves, func(i, j int) bool {
		if g.leaves[i][0] != g.leaves[j][0] {
			return g.leaves[i][0] < g.leaves[j][0]
		}
		return g.leaves[i][1] < g.leaves[j][1]
	})
	return g
}

type chain struct {
	u       *universe
	store   memStore
	accts   map[byte]*acct
	root    common.Hash
	roots   []int       // all state roots produced
	refd    map[int]int // user-level reference counts
	bytes   int64
	ops     SL
	cns     int64
}

func (c *chain) block(r *Rng, nacc, nslot, touch int) {
	var sets []gset
	acc, err := trie.New(trie.StateTrieID(c.root), c.store)
	if err != nil {
		panic(err)
	}
	seen := map[byte]bool{}
	for t := 0; t < touch; t++ {
		ai := byte(r.Intn(nacc))
		if seen[ai] {
			continue
		}
		seen[ai] = true
		a := c.accts[ai]
		if a == nil {
			a = &acct{slots: map[byte]byte{}, root: types.EmptyRootHash}
			c.accts[ai] = a
		}
		a.nonce = uint64(r.Intn(3))
		if nslot > 0 && r.Chance(3, 4) {
			st, err := trie.New(trie.StorageTrieID(c.root, ownerOf(ai), a.root), c.store)
			if err != nil {
				panic(err)
			}
			for k := r.Range(1, 3); k > 0; k-- {
				si, v := byte(r.Intn(nslot)), byte(r.Intn(3))
				if v == 0 {
					st.MustDelete(slotKey(si))
					delete(a.slots, si)
				} else {
					st.MustUpdate(slotKey(si), slotVal(v))
					a.slots[si] = v
				}
			}
			root, ns := st.Commit(false)
			a.root = root
			if g := setOf(c.u, c.store, ai+1, ns); len(g.nodes) > 0 {
				sets = append(sets, g)
			}
		}
		blob, _ := rlp.EncodeToBytes(&types.StateAccount{Nonce: a.nonce, Balance: uint256.NewInt(7), Root: a.root, CodeHash: types.EmptyCodeHash[:]})
		acc.MustUpdate(acctKey(ai), blob)
	}
	root, ns := acc.Commit(true)
	c.root = root
	// random order of the storage sets (Go iterates the owner map in random order)
	for i := len(sets) - 1; i > 0; i-- {
		j := r.Intn(i + 1)
		sets[i], sets[j] = sets[j], sets[i]
	}
	g := setOf(c.u, c.store, 0, ns)
	sets = append(sets, g)
	for _, s := range sets {
		for _, n := range s.nodes {
			c.bytes += int64(32+len(c.u.blob[n.id-1])) + c.cns
		}
	}
	c.ops = append(c.ops, updateOp(sets))
	if root != types.EmptyRootHash {
		c.roots = append(c.roots, c.u.id(root))
	}
}

func (c *chain) refdRoots() []int {
	var l []int
	for k, v := range c.refd {
		if v > 0 {
			l = append(l, k)
		}
	}
	sort.Ints(l)
	return l
}

func (c *chain) extraOps(r *Rng) {
	if l := c.refdRoots(); len(l) > 0 && r.Chance(1, 3) {
		x := l[r.Intn(len(l))]
		c.refd[x]--
		c.ops = append(c.ops, L(I(2), I(int64(x))))
	}
	if r.Chance(1, 5) {
		lim := int64(0)
		if !r.Chance(1, 6) {
			lim = int64(r.U64() % uint64(c.bytes+1))
		}
		c.ops = append(c.ops, L(I(3), I(lim)))
	}
	if len(c.roots) > 0 && r.Chance(1, 6) {
		c.ops = append(c.ops, L(I(4), I(int64(c.roots[r.Intn(len(c.roots))]))))
	}
}

func genChain(r *Rng, cns int64, nblocks, nacc, nslot, touch int, plain bool) Sx {
	c := &chain{u: newUniverse(), store: memStore{}, accts: map[byte]*acct{}, root: types.EmptyRootHash, refd: map[int]int{}, cns: cns}
	for b := 0; b < nblocks; b++ {
		c.block(r, nacc, nslot, 1+r.Intn(touch))
		if n := len(c.roots); n > 0 && (plain || r.Chance(7, 8)) {
			x := c.roots[n-1]
			c.refd[x]++
			c.ops = append(c.ops, L(I(1), I(int64(x)), I(0)))
		}
		if !plain {
			c.extraOps(r)
		}
	}
	if plain {
		c.ops = append(c.ops, L(I(4), I(int64(c.roots[len(c.roots)-1]))))
	}
	// remove the remaining references in random order
	for {
		l := c.refdRoots()
		if len(l) == 0 || r.Chance(1, 12) {
			break
		}
		x := l[r.Intn(len(l))]
		c.refd[x]--
		c.ops = append(c.ops, L(I(2), I(int64(x))))
		if !plain && r.Chance(1, 8) {
			c.extraOps(r)
		}
	}
	if r.Chance(1, 3) {
		c.ops = append(c.ops, L(I(3), I(0)))
	}
	w, e := c.u.world()
	return L(I(cns), I(int64(ethdb.IdealBatchSize)), w, c.ops, e)
}

// ---------------------------------------------------------------- generator: synthetic DAGs

type synth struct {
	u    *universe
	kids [][]int // by id-1
	ext  [][]int
	ops  SL
	refd map[int]int
}

func (s *synth) newNode(r *Rng, dangling bool) int {
	n := len(s.kids)
	var slots [17][]byte
	if n > 0 {
		k := r.Intn(4)
		pos := 0
		for i := 0; i < k && pos < 16; i++ {
			c := 1 + r.Intn(n)
			if r.Chance(1, 3) && n > 3 {
				c = n - r.Intn(3)
			}
			slots[pos] = s.u.hash[c-1][:]
			pos += 1 + r.Intn(4)
		}
	}
	if dangling {
		slots[15] = crypto.Keccak256(r.Bytes(4))
	}
	slots[16] = r.Bytes(3 + r.Intn(40))
	blob, _ := rlp.EncodeToBytes(slots[:])
	id := s.u.add(blob)
	for len(s.kids) < len(s.u.hash) {
		s.kids = append(s.kids, nil)
		s.ext = append(s.ext, nil)
	}
	s.kids[id-1] = s.u.kids[id-1]
	if id > 1 && r.Chance(1, 4) {
		c := 1 + r.Intn(id-1)
		if s.u.known[c-1] {
			s.ext[id-1] = append(s.ext[id-1], c)
			if r.Chance(1, 4) {
				if c2 := 1 + r.Intn(id-1); c2 != c && s.u.known[c2-1] {
					s.ext[id-1] = append(s.ext[id-1], c2)
				}
			}
		}
	}
	return id
}

func (s *synth) closure(roots []int) []int {
	seen := map[int]bool{}
	var walk func(int)
	walk = func(i int) {
		if seen[i] || !s.u.known[i-1] {
			return
		}
		seen[i] = true
		for _, c := range s.kids[i-1] {
			walk(c)
		}
		for _, c := range s.ext[i-1] {
			walk(c)
		}
	}
	for _, x := range roots {
		walk(x)
	}
	var l []int
	for k := range seen {
		l = append(l, k)
	}
	sort.Ints(l)
	return l
}

// update emits one Update over [ids] (ascending = children first); adversarial
// updates shuffle the order and drop or invent leaf references.
func (s *synth) update(r *Rng, ids []int, adv bool) {
	if len(ids) > 250 {
		ids = ids[:250]
	}
	if adv && r.Chance(1, 2) {
		for i := len(ids) - 1; i > 0; i-- {
			j := r.Intn(i + 1)
			ids[i], ids[j] = ids[j], ids[i]
		}
	}
	nsets := 1 + r.Intn(3)
	sets := make([]gset, nsets)
	for i := range sets {
		sets[i].owner = byte(nsets - 1 - i) // account set (owner 0) last
	}
	// contiguous split keeps the global order: set k gets a slice, paths descending inside
	cut := make([]int, nsets+1)
	cut[nsets] = len(ids)
	for i := 1; i < nsets; i++ {
		cut[i] = r.Intn(len(ids) + 1)
	}
	sort.Ints(cut)
	for k := 0; k < nsets; k++ {
		for j := cut[k]; j < cut[k+1]; j++ {
			sets[k].nodes = append(sets[k].nodes, pathNode{string([]byte{byte(255 - (j - cut[k]))}), ids[j]})
		}
	}
	acc := &sets[nsets-1]
	for _, p := range ids {
		for _, c := range s.ext[p-1] {
			if adv && r.Chance(1, 6) {
				continue
			}
			acc.leaves = append(acc.leaves, [2]int{p, c})
		}
	}
	if adv && r.Chance(1, 3) {
		n := len(s.kids)
		// invented reference; child id < parent id keeps the graph acyclic (a cycle makes the
		// real commit/dereference recurse until the Go stack overflows, which cannot be caught)
		if p := 1 + r.Intn(n); p > 1 {
			if c := 1 + r.Intn(p-1); s.u.known[p-1] && s.u.known[c-1] {
				acc.leaves = append(acc.leaves, [2]int{p, c})
			}
		}
	}
	s.ops = append(s.ops, updateOp(sets))
}

func genSynth(r *Rng, cns int64, steps int, adv bool) Sx {
	s := &synth{u: newUniverse(), refd: map[int]int{}}
	var tops []int
	total := int64(0)
	for st := 0; st < steps; st++ {
		m := 1 + r.Intn(5)
		var fresh []int
		for i := 0; i < m; i++ {
			fresh = append(fresh, s.newNode(r, adv && r.Chance(1, 10)))
		}
		top := fresh[len(fresh)-1]
		var ids []int
		switch {
		case adv && r.Chance(1, 3):
			ids = append(ids, fresh...)
			if x := 1 + r.Intn(len(s.kids)); r.Chance(1, 2) && s.u.known[x-1] && x < fresh[0] {
				ids = append(ids, x)
			}
			sort.Ints(ids)
		default:
			extra := []int{}
			if r.Chance(1, 3) { // resubmit an old subtree as well (re-insertion after flush / skip when cached)
				extra = append(extra, 1+r.Intn(len(s.kids)))
			}
			ids = s.closure(append(append([]int{}, fresh...), extra...))
		}
		for _, i := range ids {
			total += int64(32+len(s.u.blob[i-1])) + cns
		}
		s.update(r, ids, adv)
		tops = append(tops, top)
		if r.Chance(5, 6) {
			s.refd[top]++
			s.ops = append(s.ops, L(I(1), I(int64(top)), I(0)))
		}
		// extras
		if r.Chance(1, 3) {
			var l []int
			for k, v := range s.refd {
				if v > 0 {
					l = append(l, k)
				}
			}
			sort.Ints(l)
			if len(l) > 0 {
				x := l[r.Intn(len(l))]
				s.refd[x]--
				s.ops = append(s.ops, L(I(2), I(int64(x))))
			}
		}
		if r.Chance(1, 5) {
			s.ops = append(s.ops, L(I(3), I(int64(r.U64()%uint64(total+1)))))
		}
		if r.Chance(1, 6) {
			s.ops = append(s.ops, L(I(4), I(int64(tops[r.Intn(len(tops))]))))
		}
		if adv {
			n := len(s.kids)
			switch r.Intn(8) {
			case 0:
				s.ops = append(s.ops, L(I(2), I(int64(r.Intn(n+1))))) // unmatched / zero dereference
			case 1:
				p := r.Intn(n + 1) // raw Reference, child id < parent id (acyclic) or parent 0
				c := r.Intn(max(p, 1))
				if p > 0 && (!s.u.known[p-1] || c == 0 || !s.u.known[c-1]) {
					p = 0 // dangling ids are not topologically ordered
				}
				s.ops = append(s.ops, L(I(1), I(int64(c)), I(int64(p))))
			case 2:
				s.ops = append(s.ops, L(I(4), I(int64(r.Intn(n+1)))))
			case 3:
				s.ops = append(s.ops, L(I(3), I(int64(r.Intn(200))-50)))
			}
		}
	}
	var l []int
	for k, v := range s.refd {
		for ; v > 0; v-- {
			l = append(l, k)
		}
	}
	sort.Ints(l)
	for i := len(l) - 1; i > 0; i-- {
		j := r.Intn(i + 1)
		l[i], l[j] = l[j], l[i]
	}
	for _, x := range l {
		s.ops = append(s.ops, L(I(2), I(int64(x))))
	}
	w, e := s.u.world()
	return L(I(cns), I(int64(ethdb.IdealBatchSize)), w, s.ops, e)
}

// genLeak is the witness of C21_deref_collects_refuted: an account node P (external child S)
// is committed, resubmitted while S is only on disk, then S is resubmitted (now counted from
// the older P), Cap flushes P alone, and both references to P are removed: S stays cached
// with parents = 1 and no referrer (it is on disk, so nothing is lost; it is never collected).
func genLeak(cns int64, rr *Rng) Sx {
	s := &synth{u: newUniverse(), refd: map[int]int{}}
	n1, n2, s1, s2 := 10, 20, byte(1), byte(2)
	if rr != nil {
		n1, n2, s1, s2 = rr.Range(1, 60), rr.Range(1, 60), byte(rr.Intn(120)), byte(120+rr.Intn(120))
	}
	mk := func(salt byte, n int) int {
		var slots [17][]byte
		slots[16] = bytes.Repeat([]byte{salt}, n)
		blob, _ := rlp.EncodeToBytes(slots[:])
		id := s.u.add(blob)
		s.kids = append(s.kids, nil)
		s.ext = append(s.ext, nil)
		return id
	}
	S, P := mk(s1, n1), mk(s2, n2)
	s.ext[P-1] = []int{S}
	r := NewRng(1)
	s.update(r, []int{S, P}, false)
	s.ops = append(s.ops, L(I(1), I(int64(P)), I(0)), L(I(4), I(int64(P))))
	s.update(r, []int{P}, false)
	s.ops = append(s.ops, L(I(1), I(int64(P)), I(0)))
	s.update(r, []int{S, P}, false)
	pc := int64(32+len(s.u.blob[P-1])) + cns + 32
	sc := int64(32+len(s.u.blob[S-1])) + cns
	s.ops = append(s.ops, L(I(3), I(sc+pc/2)), L(I(2), I(int64(P))), L(I(2), I(int64(P))))
	w, e := s.u.world()
	return L(I(cns), I(int64(ethdb.IdealBatchSize)), w, s.ops, e)
}

func gen(r *Rng, tier string, emit func(Sx)) {
	r = NewRng(r.U64())
	cns := int64(hashdb.VerifC21CachedNodeSize())
	emit(genLeak(cns, nil))
	nLeak := 5
	if tier == "thorough" {
		nLeak = 60
	}
	for i := 0; i < nLeak; i++ {
		emit(genLeak(cns, r))
	}
	nChain, nSynth, nAdv, nBig := 220, 150, 120, 1
	if tier == "thorough" {
		nChain, nSynth, nAdv, nBig = 6000, 4000, 3000, 12
	}
	for i := 0; i < nChain; i++ {
		nacc := r.Range(1, 12)
		emit(genChain(r, cns, r.Range(1, 14), nacc, r.Intn(7), r.Range(1, 4), false))
	}
	for i := 0; i < nSynth; i++ {
		emit(genSynth(r, cns, r.Range(1, 14), false))
	}
	for i := 0; i < nAdv; i++ {
		emit(genSynth(r, cns, r.Range(1, 10), true))
	}
	for i := 0; i < nBig; i++ {
		// enough data in one Commit to cross ethdb.IdealBatchSize (mid-commit batch write + uncache)
		emit(genChain(r, cns, 3, 250, 6, 250, true))
	}
}

// ---------------------------------------------------------------- runner

type caseData struct {
	hash []common.Hash
	blob [][]byte
	ids  map[common.Hash]int
}

func (cd *caseData) h(id int) common.Hash {
	if id <= 0 || id > len(cd.hash) {
		if id == 0 {
			return common.Hash{}
		}
		panic("hxlib: id out of range")
	}
	return cd.hash[id-1]
}

func (cd *caseData) idOf(h common.Hash) int64 {
	if h == (common.Hash{}) {
		return 0
	}
	i, ok := cd.ids[h]
	if !ok {
		return 1 << 40 // a hash outside the case: cannot equal any model id
	}
	return int64(i)
}

type white struct {
	nodes  map[int]hashdb.VerifC21Node
	oldest common.Hash
	newest common.Hash
	ds, cs float64
	disk   map[int]bool
}

func snapshot(cd *caseData, hdb *hashdb.Database, disk ethdb.Database) white {
	ns, o, n, ds, cs := hdb.VerifC21Dump()
	w := white{nodes: map[int]hashdb.VerifC21Node{}, oldest: o, newest: n, ds: ds, cs: cs, disk: map[int]bool{}}
	for _, x := range ns {
		w.nodes[int(cd.idOf(x.Hash))] = x
	}
	it := disk.NewIterator(nil, nil)
	for it.Next() {
		if len(it.Key()) == 32 {
			if i, ok := cd.ids[common.BytesToHash(it.Key())]; ok {
				w.disk[i] = true
			}
		}
	}
	it.Release()
	return w
}

func (w white) sx(cd *caseData, size float64) Sx {
	nodes, disk := SL{}, SL{}
	for i := 1; i <= len(cd.hash); i++ {
		if x, ok := w.nodes[i]; ok {
			var ex []int
			for _, c := range x.External {
				ex = append(ex, int(cd.idOf(c)))
			}
			sort.Ints(ex)
			prev := cd.idOf(x.FlushPrev)
			if x.Hash == w.oldest {
				prev = 0 // stale by design, never read by the code
			}
			nodes = append(nodes, L(I(int64(i)), U(uint64(x.Parents)), ints(ex), I(prev), I(cd.idOf(x.FlushNext))))
		}
		if w.disk[i] {
			disk = append(disk, I(int64(i)))
		}
	}
	newest := cd.idOf(w.newest)
	if w.oldest == (common.Hash{}) {
		newest = 0 // stale when the list is empty
	}
	return L(I(0), I(cd.idOf(w.oldest)), I(newest), I(int64(w.ds)), I(int64(w.cs)), I(int64(size)), nodes, disk)
}

func run(c Sx) Result {
	l := AsList(c)
	if len(l) != 5 {
		panic("hxlib: case shape")
	}
	cns := AsInt(l[0])
	if cns != hashdb.VerifC21CachedNodeSize() || AsInt(l[1]) != ethdb.IdealBatchSize {
		panic("hxlib: constants of the case differ from the implementation's")
	}
	cd := &caseData{ids: map[common.Hash]int{}}
	for _, e := range AsList(l[4]) {
		f := AsList(e)
		if len(f) != 3 {
			panic("hxlib: extra shape")
		}
		b := AsBytes(f[2])
		if AsInt(f[0]) != len(cd.hash)+1 {
			panic("hxlib: extra ids not consecutive")
		}
		if AsInt(f[1]) == 0 {
			cd.hash = append(cd.hash, crypto.Keccak256Hash(b))
			cd.blob = append(cd.blob, b)
		} else {
			if len(b) != 32 {
				panic("hxlib: bare hash length")
			}
			cd.hash = append(cd.hash, common.BytesToHash(b))
			cd.blob = append(cd.blob, nil)
		}
		if _, dup := cd.ids[cd.hash[len(cd.hash)-1]]; dup {
			panic("hxlib: duplicate node")
		}
		cd.ids[cd.hash[len(cd.hash)-1]] = len(cd.hash)
	}
	// the abstract graph handed to the model must be the real one
	wl := AsList(l[2])
	if len(wl) != len(cd.hash) {
		panic("hxlib: world size")
	}
	kids := make([][]int, len(cd.hash))
	for i, e := range wl {
		f := AsList(e)
		if len(f) != 3 {
			panic("hxlib: world shape")
		}
		if AsInt(f[0]) != i+1 || AsInt(f[1]) != len(cd.blob[i]) {
			panic("hxlib: world entry")
		}
		var real []int
		if cd.blob[i] != nil {
			for _, ch := range safeGather(cd.blob[i]) {
				real = append(real, int(cd.idOf(ch)))
			}
		}
		ks := AsList(f[2])
		if len(ks) != len(real) {
			panic("hxlib: world kids")
		}
		for j := range ks {
			if AsInt(ks[j]) != real[j] {
				panic("hxlib: world kids")
			}
		}
		kids[i] = real
	}

	disk := rawdb.NewMemoryDatabase()
	tdb := triedb.NewDatabase(disk, triedb.HashDefaults)
	hdb := tdb.VerifC21HashDB()

	res := Result{}
	obs := SL{}
	var fails []string
	tag := map[string]bool{}
	guarded := true
	refd := map[int]int{}        // user-level root references
	ext := map[int][]int{}       // true external children (account leaf -> storage root), by parent
	extSeen := map[int]bool{}
	readable := func(id int) bool {
		if id <= 0 || id > len(cd.hash) {
			return false
		}
		rd, err := tdb.NodeReader(types.EmptyRootHash)
		if err != nil {
			return false
		}
		b, _ := rd.Node(common.Hash{}, nil, cd.h(id))
		return len(b) > 0 && crypto.Keccak256Hash(b) == cd.h(id)
	}
	nops, nupd, ncapFlush, ncommit, ngc := 0, 0, 0, 0, 0
	reins := map[int]bool{} // nodes inserted by an Update while present only on disk
	var leaks []string
	// every external edge handed to the implementation must keep the graph acyclic: on a
	// cycle the real commit/dereference recurse until the Go stack overflows (fatal, uncatchable)
	xedges := map[int][]int{}
	addEdge := func(child, parent int) {
		if child <= 0 || parent <= 0 || child > len(cd.hash) || parent > len(cd.hash) {
			return
		}
		seen := map[int]bool{}
		var reach func(int) bool
		reach = func(x int) bool {
			if x == parent {
				return true
			}
			if seen[x] {
				return false
			}
			seen[x] = true
			for _, k := range kids[x-1] {
				if reach(k) {
					return true
				}
			}
			for _, k := range xedges[x] {
				if reach(k) {
					return true
				}
			}
			return false
		}
		if reach(child) {
			panic("hxlib: cyclic external reference")
		}
		xedges[parent] = append(xedges[parent], child)
	}

	for _, o := range AsList(l[3]) {
		f := AsList(o)
		if len(f) == 0 {
			panic("hxlib: empty op")
		}
		if want := map[int]int{0: 4, 1: 3, 2: 2, 3: 2, 4: 2}[AsInt(f[0])]; want == 0 || len(f) != want {
			panic("hxlib: op shape")
		}
		before := snapshot(cd, hdb, disk)
		panicked := false
		func() {
			defer func() {
				if e := recover(); e != nil {
					if s := fmt.Sprint(e); len(s) >= 6 && s[:6] == "hxlib:" {
						panic(e)
					}
					panicked = true
				}
			}()
			switch AsInt(f[0]) {
			case 0:
				nupd++
				order := AsList(f[1])
				refs := AsList(f[2])
				sets := AsList(f[3])
				// guards + consistency of the abstract op with the concrete sets
				var gotOrder []int
				var gotRefs [][2]int
				type cset struct {
					owner common.Hash
					ns    *trienode.NodeSet
				}
				var csets []cset
				for _, s := range sets {
					sf := AsList(s)
					if len(sf) != 3 {
						panic("hxlib: set shape")
					}
					owner := common.Hash{}
					if ob := AsInt(sf[0]); ob != 0 {
						owner = common.BytesToHash([]byte{byte(ob)})
					}
					ns := trienode.NewNodeSet(owner)
					var ps []pathNode
					for _, pn := range AsList(sf[1]) {
						pf := AsList(pn)
						if len(pf) != 2 {
							panic("hxlib: path node shape")
						}
						id := AsInt(pf[1])
						if id <= 0 || id > len(cd.hash) || cd.blob[id-1] == nil {
							panic("hxlib: update node without blob")
						}
						ns.AddNode(AsBytes(pf[0]), trienode.NewNodeWithPrev(cd.h(id), cd.blob[id-1], nil))
						ps = append(ps, pathNode{string(AsBytes(pf[0])), id})
					}
					if len(ns.Nodes) != len(ps) {
						panic("hxlib: duplicate path")
					}
					sort.Slice(ps, func(i, j int) bool { return ps[i].path > ps[j].path })
					for _, p := range ps {
						gotOrder = append(gotOrder, p.id)
					}
					for _, lf := range AsList(sf[2]) {
						lp := AsList(lf)
						if len(lp) != 2 || AsInt(lp[0]) <= 0 || AsInt(lp[0]) > len(cd.hash) || AsInt(lp[1]) <= 0 || AsInt(lp[1]) > len(cd.hash) {
							panic("hxlib: leaf shape")
						}
						ns.AddLeaf(cd.h(AsInt(lp[0])), leafBlob(cd.h(AsInt(lp[1]))))
						if owner == (common.Hash{}) {
							gotRefs = append(gotRefs, [2]int{AsInt(lp[1]), AsInt(lp[0])})
							addEdge(AsInt(lp[1]), AsInt(lp[0]))
						}
					}
					csets = append(csets, cset{owner, ns})
				}
				for _, id := range gotOrder {
					if _, cachedBefore := before.nodes[id]; !cachedBefore && before.disk[id] {
						reins[id] = true
					}
				}
				if len(gotOrder) != len(order) || len(gotRefs) != len(refs) {
					panic("hxlib: update order")
				}
				for i := range order {
					if AsInt(order[i]) != gotOrder[i] {
						panic("hxlib: update order")
					}
				}
				for i := range refs {
					rf := AsList(refs[i])
					if len(rf) != 2 {
						panic("hxlib: ref shape")
					}
					if AsInt(rf[0]) != gotRefs[i][0] || AsInt(rf[1]) != gotRefs[i][1] {
						panic("hxlib: update refs")
					}
				}
				for i, cs := range csets {
					if cs.owner == (common.Hash{}) && i != len(csets)-1 {
						panic("hxlib: account set must be last")
					}
				}
				// guard: children readable or inserted earlier; externals fixed per parent, known at insertion
				thisRefs := map[int][]int{}
				for _, rf := range gotRefs {
					thisRefs[rf[1]] = append(thisRefs[rf[1]], rf[0])
				}
				inThis := map[int]bool{}
				for _, id := range gotOrder {
					for _, k := range kids[id-1] {
						if !inThis[k] && !readable(k) {
							guarded = false
						}
					}
					for _, s := range thisRefs[id] {
						if !inThis[s] && !readable(s) {
							guarded = false
						}
					}
					if extSeen[id] {
						if fmt.Sprint(ext[id]) != fmt.Sprint(thisRefs[id]) {
							guarded = false
						}
					} else {
						extSeen[id] = true
						ext[id] = thisRefs[id]
						seen := map[int]bool{}
						for _, s := range thisRefs[id] {
							if seen[s] || s == id {
								guarded = false
							}
							seen[s] = true
						}
					}
					inThis[id] = true
				}
				for p := range thisRefs {
					if !inThis[p] {
						guarded = false
					}
				}
				// one Update per call when the owner order is determined (at most one storage set),
				// else one Update per set in the case's order (Go's owner-map order is random)
				if len(csets) <= 2 {
					m := trienode.NewMergedNodeSet()
					for _, cs := range csets {
						if err := m.Merge(cs.ns); err != nil {
							panic("hxlib: merge")
						}
						if cs.owner == (common.Hash{}) {
							m.Sets[cs.owner].Leaves = cs.ns.Leaves
						}
					}
					if err := tdb.Update(common.Hash{1}, types.EmptyRootHash, 0, m, nil); err != nil {
						panic("hxlib: update error " + err.Error())
					}
				} else {
					tag["split-update"] = true
					for _, cs := range csets {
						m := trienode.NewWithNodeSet(cs.ns)
						if err := tdb.Update(common.Hash{1}, types.EmptyRootHash, 0, m, nil); err != nil {
							panic("hxlib: update error " + err.Error())
						}
					}
				}
			case 1:
				ch, p := AsInt(f[1]), AsInt(f[2])
				if p != 0 || !readable(ch) {
					guarded = false
				}
				refd[ch]++
				if p != 0 {
					addEdge(ch, p)
				}
				tdb.Reference(cd.h(ch), cd.h(p))
			case 2:
				r := AsInt(f[1])
				if refd[r] <= 0 {
					guarded = false
				}
				refd[r]--
				tdb.Dereference(cd.h(r))
			case 3:
				if err := tdb.Cap(common.StorageSize(AsBig(f[1]).Int64())); err != nil {
					panic("hxlib: cap error")
				}
			case 4:
				ncommit++
				if err := tdb.Commit(cd.h(AsInt(f[1])), false); err != nil {
					panic("hxlib: commit error")
				}
			default:
				panic("hxlib: op")
			}
		}()
		nops++
		if panicked {
			obs = append(obs, L(I(1)))
			tag["panic"] = true
			if guarded {
				fails = append(fails, fmt.Sprintf("op %d: implementation panicked on a guarded history", nops))
			}
			break
		}
		_, sz, _ := tdb.Size()
		w := snapshot(cd, hdb, disk)
		obs = append(obs, w.sx(cd, float64(sz)))
		if len(w.nodes) < len(before.nodes) {
			switch AsInt(f[0]) {
			case 2:
				ngc++
			case 3:
				ncapFlush++
			}
		}
		if AsInt(f[0]) == 4 && len(before.nodes) > 0 && len(w.nodes) > 0 && len(w.nodes) < len(before.nodes) {
			tag["partial-commit"] = true
		}
		// ---- direct oracle on the implementation
		fails = append(fails, oracle(cd, cns, kids, ext, refd, w, float64(sz), guarded, readable, tag, nops, reins, &leaks)...)
		if len(fails) > 0 {
			break
		}
	}
	res.Obs = obs
	if len(fails) == 0 && len(leaks) > 0 {
		// the known open finding is reported only when nothing else failed, so that it can
		// never mask another violation
		fails = leaks[:1]
	}
	if len(fails) > 0 {
		if len(fails) > 4 {
			fails = fails[:4]
		}
		res.Oracle = fmt.Sprint(fails)
	}
	if guarded {
		tag["guarded"] = true
	} else {
		tag["unguarded"] = true
	}
	if ngc > 0 {
		tag["gc"] = true
	}
	if ncapFlush > 0 {
		tag["cap-flush"] = true
	}
	if ncommit > 0 {
		tag["commit"] = true
	}
	tag[fmt.Sprintf("nodes%d", min(len(cd.hash)/16, 8))] = true
	for t := range tag {
		res.Tags = append(res.Tags, t)
	}
	res.NonTrivial = nupd >= 2 && (ngc > 0 || ncapFlush > 0 || ncommit > 0) && len(cd.hash) >= 4
	return res
}

func oracle(cd *caseData, cns int, kids [][]int, ext map[int][]int, refd map[int]int, w white, size float64,
	guarded bool, readable func(int) bool, tag map[string]bool, nops int, reins map[int]bool, leaks *[]string) (fails []string) {
	bad := func(format string, a ...any) {
		fails = append(fails, fmt.Sprintf("op %d: ", nops)+fmt.Sprintf(format, a...))
	}
	// flush list: forward walk covers exactly the dirties, backward links agree, ends at newest
	var order []int
	pos := map[int]int{}
	cur := w.oldest
	if len(w.nodes) == 0 {
		if cur != (common.Hash{}) {
			bad("oldest not null on an empty cache")
		}
	} else {
		prev := common.Hash{}
		for cur != (common.Hash{}) && len(order) <= len(w.nodes) {
			id := int(cd.idOf(cur))
			x, ok := w.nodes[id]
			if !ok {
				bad("flush list reaches uncached node %d", id)
				return
			}
			if len(order) > 0 && x.FlushPrev != prev {
				bad("flushPrev of %d broken", id)
			}
			pos[id] = len(order)
			order = append(order, id)
			prev, cur = cur, x.FlushNext
		}
		if len(order) != len(w.nodes) || len(pos) != len(w.nodes) {
			bad("flush list has %d nodes, cache %d", len(order), len(w.nodes))
			return
		}
		if prev != w.newest {
			bad("newest is not the flush-list tail")
		}
	}
	// sizes
	var ds, cs float64
	for id, x := range w.nodes {
		ds += float64(32 + len(cd.blob[id-1]))
		cs += float64(32 * len(x.External))
		if x.Size != len(cd.blob[id-1]) {
			bad("blob of %d changed", id)
		}
	}
	if ds != w.ds || cs != w.cs || size != ds+cs+float64(len(w.nodes)*cns) {
		bad("sizes: dirtiesSize %v (want %v) childrenSize %v (want %v) Size %v", w.ds, ds, w.cs, cs, size)
	}
	if !guarded {
		return
	}
	// reference counts, recomputed independently; exact for nodes not on disk
	count := map[int]int{}
	for id, x := range w.nodes {
		for _, k := range kids[id-1] {
			count[k]++
		}
		for _, c := range x.External {
			count[int(cd.idOf(c))]++
		}
	}
	for id, x := range w.nodes {
		want := count[id] + max(refd[id], 0)
		if !w.disk[id] && int(x.Parents) != want {
			bad("node %d not on disk has parents=%d, recomputed %d", id, x.Parents, want)
		}
		if w.disk[id] && int(x.Parents) > want {
			tag["overcount-on-disk"] = true
		}
		if w.disk[id] && int(x.Parents) < want {
			tag["undercount-on-disk"] = true
		}
		// children before parents in the flush list unless on disk
		for _, k := range kids[id-1] {
			if _, dirty := w.nodes[k]; dirty && !w.disk[k] && pos[k] > pos[id] {
				bad("child %d after parent %d in the flush list and not on disk", k, id)
			}
		}
	}
	// THE property: everything reachable from a referenced root is readable
	seen := map[int]bool{}
	var walk func(int)
	walk = func(id int) {
		if seen[id] {
			return
		}
		seen[id] = true
		if !readable(id) {
			bad("live node %d is not readable", id)
			return
		}
		for _, k := range kids[id-1] {
			walk(k)
		}
		for _, k := range ext[id] {
			walk(k)
		}
	}
	var roots []int
	for r, n := range refd {
		if n > 0 {
			roots = append(roots, r)
		}
	}
	sort.Ints(roots)
	for _, r := range roots {
		walk(r)
	}
	// collection: a cached node not on disk hangs under a referenced root or a parentless cached node
	top := map[int]bool{}
	var down func(int)
	down = func(id int) {
		if top[id] {
			return
		}
		top[id] = true
		for _, k := range kids[id-1] {
			if _, ok := w.nodes[k]; ok {
				down(k)
			}
		}
		for _, c := range w.nodes[id].External {
			if k := int(cd.idOf(c)); k > 0 {
				if _, ok := w.nodes[k]; ok {
					down(k)
				}
			}
		}
	}
	for id, x := range w.nodes {
		if x.Parents == 0 || refd[id] > 0 {
			down(id)
		}
	}
	for id := range w.nodes {
		if !top[id] {
			if w.disk[id] && reins[id] {
				// mechanism verified: the orphan is on disk and was re-inserted by an Update while only on disk
				tag["leaked-disk-node"] = true
				*leaks = append(*leaks, fmt.Sprintf("C21-leak-after-deref: op %d: cached node %d (parents=%d, on disk, re-inserted by an Update while only on disk) "+
					"has no cached referrer and no referenced root above it: Dereference can never collect it", nops, id, w.nodes[id].Parents))
			} else if w.disk[id] {
				bad("cached node %d (on disk, never re-inserted while only on disk) is unreachable from any referenced root or parentless node", id)
			} else {
				bad("cached node %d (not on disk) is unreachable from any referenced root or parentless node", id)
			}
		}
	}
	if len(roots) == 0 {
		tag["all-dereferenced"] = true
	}
	return
}

func main() {
	Main(Family{
		ID: "c21",
		Rule: "three streams: (a) chains of 1-14 blocks of real account/storage secure-trie commits (trie.Commit node sets, 1-12 accounts, " +
			"0-6 slots, small value pools so storage tries are shared between accounts and states recur), each followed by Reference of the root and random " +
			"Dereference/Cap(random limit)/Commit(random root), finally dereferencing the remaining roots in random order; (b) synthetic full-node DAGs " +
			"with multi-parent sharing, duplicate children, external references and resubmitted subtrees; (c) adversarial: shuffled insertion order, dangling children, " +
			"dropped/invented leaf references, raw Reference(child,parent), unmatched Dereference, zero hashes, negative caps (oracle restricted to flush list and sizes); " +
			"plus large updates whose Commit crosses ethdb.IdealBatchSize. Non-trivial: at least 2 updates, at least 4 nodes and at least one garbage collection, cap flush or commit.",
		Gen: gen,
		Run: run,
	})
}
