// Family c10: trie/encoding.go hex-prefix functions vs coq/Trie/Hex.v.
package main

import (
	"bytes"
	"fmt"

	"github.com/ethereum/go-ethereum/trie"
	. "gethverif/harness/hxlib"
)

func catch(f func() []byte) (out []byte, ok bool) {
	defer func() {
		if recover() != nil {
			ok = false
		}
	}()
	return f(), true
}

func ob(f func() []byte) Sx {
	out, ok := catch(f)
	if !ok {
		return L()
	}
	return L(B(out))
}

func hasTerm(h []byte) bool { return len(h) > 0 && h[len(h)-1] == 16 }

func wfHex(h []byte) bool {
	p := h
	if hasTerm(h) {
		p = h[:len(h)-1]
	}
	for _, x := range p {
		if x >= 16 {
			return false
		}
	}
	return true
}

func wfCompact(c []byte) bool {
	if len(c) == 0 {
		return false
	}
	f := c[0] >> 4
	if f >= 4 {
		return false
	}
	if f&1 == 0 && c[0]&15 != 0 {
		return false
	}
	return true
}

func cp(b []byte) []byte { return append([]byte{}, b...) }

// fresh checks that a result is the caller's own buffer: after the caller scribbles over
// the whole capacity of a returned slice, the same call must still give the same answer
// (a result that aliases package-level state or another result would change).
func fresh(name string, f func() []byte) string {
	r1, ok := catch(f)
	if !ok {
		return ""
	}
	want := cp(r1)
	full := r1[:cap(r1)]
	for i := range full {
		full[i] ^= 0xA5
	}
	r2, ok2 := catch(f)
	if !ok2 || !bytes.Equal(r2, want) {
		return fmt.Sprintf("%s: result is not a fresh buffer: after the caller overwrote the returned slice the same call gives %x, before %x", name, r2, want)
	}
	return ""
}

func run(c Sx) Result {
	l := AsList(c)
	switch AsInt(l[0]) {
	case 0:
		b := AsBytes(l[1])
		res := Result{}
		res.Obs = L(
			ob(func() []byte { return trie.VerifHexToCompact(cp(b)) }),
			ob(func() []byte { return trie.VerifHexToCompactInPlace(cp(b)) }),
			ob(func() []byte { return trie.VerifCompactToHex(cp(b)) }),
			ob(func() []byte { return trie.VerifKeybytesToHex(cp(b)) }),
			ob(func() []byte { return trie.VerifHexToKeybytes(cp(b)) }),
		)
		// direct property oracle on the implementation
		var fails []string
		if wfHex(b) {
			res.Tags = append(res.Tags, "wfhex")
			if hasTerm(b) {
				res.Tags = append(res.Tags, "term")
			}
			if len(b)%2 == 1 {
				res.Tags = append(res.Tags, "oddlen")
			}
			comp, ok := catch(func() []byte { return trie.VerifHexToCompact(cp(b)) })
			if !ok {
				fails = append(fails, "hexToCompact panicked on a well-formed path")
			} else {
				back, ok2 := catch(func() []byte { return trie.VerifCompactToHex(cp(comp)) })
				if !ok2 || !bytes.Equal(back, b) {
					fails = append(fails, fmt.Sprintf("compactToHex(hexToCompact(h))=%x != h", back))
				}
				if len(comp) == 0 || (comp[0]&0x20 != 0) != hasTerm(b) {
					fails = append(fails, "terminator flag bit does not reflect the terminator (leaf/extension not separated)")
				}
				if len(b) > 0 {
					ip, ok3 := catch(func() []byte { return trie.VerifHexToCompactInPlace(cp(b)) })
					if !ok3 || !bytes.Equal(ip, comp) {
						fails = append(fails, fmt.Sprintf("in-place %x != %x", ip, comp))
					}
				}
				if len(b) >= 3 {
					res.NonTrivial = true
				}
			}
			p := b
			if hasTerm(b) {
				p = b[:len(b)-1]
			}
			if len(p)%2 == 0 {
				kb, ok := catch(func() []byte { return trie.VerifHexToKeybytes(cp(b)) })
				if !ok {
					fails = append(fails, "hexToKeybytes panicked on an even path")
				} else {
					hx := trie.VerifKeybytesToHex(kb)
					want := b
					if !hasTerm(b) {
						want = append(cp(b), 16)
					}
					if !bytes.Equal(hx, want) {
						fails = append(fails, "keybytesToHex(hexToKeybytes(h)) != h")
					}
				}
			}
		}
		if wfCompact(b) {
			res.Tags = append(res.Tags, "wfcompact")
			hx, ok := catch(func() []byte { return trie.VerifCompactToHex(cp(b)) })
			if !ok {
				fails = append(fails, "compactToHex panicked on a well-formed compact key")
			} else {
				back, ok2 := catch(func() []byte { return trie.VerifHexToCompact(cp(hx)) })
				if !ok2 || !bytes.Equal(back, b) {
					fails = append(fails, fmt.Sprintf("hexToCompact(compactToHex(c))=%x != c", back))
				}
			}
			if len(b) >= 2 {
				res.NonTrivial = true
			}
		}
		{ // byte keys
			hx := trie.VerifKeybytesToHex(cp(b))
			kb, ok := catch(func() []byte { return trie.VerifHexToKeybytes(cp(hx)) })
			if !ok || !bytes.Equal(kb, b) {
				fails = append(fails, "hexToKeybytes(keybytesToHex(k)) != k")
			}
		}
		for _, m := range []string{
			fresh("hexToCompact", func() []byte { return trie.VerifHexToCompact(cp(b)) }),
			fresh("compactToHex", func() []byte { return trie.VerifCompactToHex(cp(b)) }),
			fresh("keybytesToHex", func() []byte { return trie.VerifKeybytesToHex(cp(b)) }),
			fresh("hexToKeybytes", func() []byte { return trie.VerifHexToKeybytes(cp(b)) }),
		} {
			if m != "" {
				fails = append(fails, m)
			}
		}
		if len(fails) > 0 {
			res.Oracle = fmt.Sprint(fails)
		}
		res.Tags = append(res.Tags, fmt.Sprintf("len%d", min(len(b), 9)))
		return res
	case 1:
		a, b := AsBytes(l[1]), AsBytes(l[2])
		n := trie.VerifPrefixLen(a, b)
		res := Result{Obs: I(int64(n)), Tags: []string{"prefixlen"}, NonTrivial: n > 0 && n < len(a) && n < len(b)}
		if n > len(a) || n > len(b) || !bytes.Equal(a[:n], b[:n]) || (n < len(a) && n < len(b) && a[n] == b[n]) {
			res.Oracle = "prefixLen is not the length of the longest common prefix"
		}
		return res
	}
	panic("hxlib: unknown case kind")
}

func gen(r *Rng, tier string, emit func(Sx)) {
	// exhaustive: all wf nibble strings up to length L, with and without terminator
	maxLen := 4
	if tier == "thorough" {
		maxLen = 5
	}
	var rec func(cur []byte, depth int)
	rec = func(cur []byte, depth int) {
		emit(L(I(0), B(cur)))
		emit(L(I(0), B(append(cp(cur), 16))))
		if depth == maxLen {
			return
		}
		// nibble alphabet restricted to 6 symbols to keep the exhaustive part small
		for _, nb := range []byte{0, 1, 2, 7, 8, 15} {
			rec(append(cp(cur), nb), depth+1)
		}
	}
	rec(nil, 0)
	n := 3000
	if tier == "thorough" {
		n = 60000
	}
	for i := 0; i < n; i++ {
		switch r.Intn(10) {
		case 0, 1, 2, 3: // random wf hex, lengths up to 130
			ln := r.Intn(12)
			if r.Chance(1, 5) {
				ln = r.Intn(131)
			}
			h := make([]byte, ln)
			for j := range h {
				h[j] = byte(r.Intn(16))
			}
			if r.Bool() {
				h = append(h, 16)
			}
			emit(L(I(0), B(h)))
		case 4, 5: // wf compact keys
			ln := r.Intn(8)
			if r.Chance(1, 5) {
				ln = r.Intn(66)
			}
			cb := r.Bytes(ln + 1)
			f := byte(r.Intn(4))
			if f&1 == 0 {
				cb[0] = f << 4
			} else {
				cb[0] = f<<4 | cb[0]&15
			}
			emit(L(I(0), B(cb)))
		case 6: // arbitrary bytes (malformed stream): terminator in the middle, nibbles > 15
			emit(L(I(0), B(r.Bytes(r.Intn(10)))))
		case 7: // nibbles with stray 16s
			ln := r.Intn(9)
			h := make([]byte, ln)
			for j := range h {
				h[j] = byte(r.Intn(18))
			}
			emit(L(I(0), B(h)))
		default: // prefixLen
			a := r.Bytes(r.Intn(8))
			b := r.Bytes(r.Intn(8))
			k := r.Intn(len(a) + 1)
			if k <= len(b) {
				copy(b, a[:k])
			}
			emit(L(I(1), B(a), B(b)))
		}
	}
}

func main() {
	Main(Family{
		ID:   "C10",
		Rule: "exhaustive well-formed nibble paths up to length 4 (quick) / 5 (thorough) over a 6-symbol alphabet, each with and without terminator; random well-formed paths to length 130, random well-formed compact keys to 66 bytes, arbitrary byte strings and stray-terminator strings (malformed stream), prefixLen pairs sharing a random prefix. Besides the round-trip oracles every conversion is checked for freshness of its result (the caller overwrites the whole capacity of the returned slice; the same call must still return the same bytes). Non-trivial: a well-formed path of >= 3 nibbles or compact key of >= 2 bytes whose round trip was evaluated, or a prefixLen pair with a proper common prefix; distinct = distinct case line.",
		Gen:  gen,
		Run:  run,
	})
}
