// Family c46: p2p/discover node table (table.go, table_reval.go, node.go, netutil.DistinctNetSet)
// vs coq/Net/Table.v, driven synchronously through p2p/discover/verif_export_c46.go.
package main

import (
	"fmt"
	"math/big"
	"net"
	"net/netip"
	"sort"

	"github.com/ethereum/go-ethereum/p2p/discover"
	"github.com/ethereum/go-ethereum/p2p/enode"
	"github.com/ethereum/go-ethereum/p2p/enr"
	. "gethverif/harness/hxlib"
)

var dead = I(57005)

// ---------- building nodes ----------

func idOf(v *big.Int) enode.ID {
	var id enode.ID
	v.FillBytes(id[:])
	return id
}

func idNum(id enode.ID) *big.Int { return new(big.Int).SetBytes(id[:]) }

// mkNode builds an *enode.Node whose record carries one raw address (0, 4 or 16 bytes).
func mkNode(id *big.Int, raw []byte, udp, seq uint64) *enode.Node {
	var r enr.Record
	switch len(raw) {
	case 4:
		r.Set(enr.IPv4Addr(netip.AddrFrom4([4]byte(raw))))
	case 16:
		r.Set(enr.IPv6Addr(netip.AddrFrom16([16]byte(raw))))
	case 0:
	default:
		panic("hxlib: bad ip length")
	}
	r.Set(enr.UDP(uint16(udp)))
	r.SetSeq(seq)
	return enode.SignNull(&r, idOf(id))
}

func checkID(v *big.Int) {
	if v.Sign() < 0 || v.BitLen() > 256 {
		panic("hxlib: id out of range")
	}
}

// ---------- dumping ----------

func encIP(a netip.Addr) []Sx {
	switch {
	case !a.IsValid():
		return []Sx{I(0), I(0)}
	case a.Is4():
		b := a.As4()
		return []Sx{I(4), Big(new(big.Int).SetBytes(b[:]))}
	default:
		b := a.As16()
		return []Sx{I(6), Big(new(big.Int).SetBytes(b[:]))}
	}
}

// keyNum encodes a netip.Prefix of length 24 (or the zero Prefix) as the model does.
func keyNum(p netip.Prefix) *big.Int {
	if !p.IsValid() {
		return big.NewInt(0)
	}
	a := p.Addr()
	if a.Is4() {
		b := a.As4()
		return new(big.Int).Add(big.NewInt(1<<24), new(big.Int).SetBytes(b[:3]))
	}
	b := a.As16()
	return new(big.Int).Add(big.NewInt(1<<25), new(big.Int).SetBytes(b[:3]))
}

func encIPs(m map[netip.Prefix]uint) Sx {
	type kv struct {
		k *big.Int
		v uint
	}
	var l []kv
	for p, v := range m {
		l = append(l, kv{keyNum(p), v})
	}
	sort.Slice(l, func(i, j int) bool { return l[i].k.Cmp(l[j].k) < 0 })
	out := SL{}
	for _, e := range l {
		out = append(out, L(Big(e.k), U(uint64(e.v))))
	}
	return out
}

type driver struct {
	vt   *discover.VerifTable
	self *big.Int
	toks map[*discover.VerifTableNode]*big.Int // pointer -> token
	ptrs map[string]*discover.VerifTableNode   // token -> pointer
	tags map[string]bool
}

func (d *driver) tokOf(h *discover.VerifTableNode) Sx {
	if t, ok := d.toks[h]; ok {
		return Big(t)
	}
	return I(-7)
}

func (d *driver) encNode(n discover.VerifNodeInfo) Sx {
	out := SL{Big(idNum(n.Node.ID()))}
	out = append(out, encIP(n.Node.IPAddr())...)
	out = append(out, U(uint64(n.Node.UDP())), U(n.Node.Seq()), d.tokOf(n.Handle), I(int64(n.RevalList)), U(uint64(n.Checks)), Bool(n.Live))
	return out
}

func (d *driver) encBucket(b discover.VerifBucket) Sx {
	es, rs := SL{}, SL{}
	for _, n := range b.Entries {
		es = append(es, d.encNode(n))
	}
	for _, n := range b.Replacements {
		rs = append(rs, d.encNode(n))
	}
	return L(I(int64(b.Index)), es, rs, encIPs(b.IPs))
}

func (d *driver) encTouched(ids []*big.Int) Sx {
	out := SL{}
	for _, id := range ids {
		out = append(out, d.encBucket(d.vt.DumpBucket(d.vt.BucketIndex(idOf(id)))))
	}
	return out
}

func (d *driver) encTable() Sx {
	bs := SL{}
	for i := 0; i < d.vt.NumBuckets(); i++ {
		bs = append(bs, d.encBucket(d.vt.DumpBucket(i)))
	}
	return L(bs, encIPs(d.vt.TableIPs()), Bool(d.vt.IsInitDone()))
}

// learn records the pointer allocated for (id, tok), if the operation allocated one.
func (d *driver) learn(id, tok *big.Int) {
	b := d.vt.DumpBucket(d.vt.BucketIndex(idOf(id)))
	for _, l := range [][]discover.VerifNodeInfo{b.Entries, b.Replacements} {
		for _, n := range l {
			if _, known := d.toks[n.Handle]; !known && n.Node.ID() == idOf(id) {
				d.toks[n.Handle] = tok
				d.ptrs[tok.String()] = n.Handle
			}
		}
	}
}

func (d *driver) setRand(id, rnd *big.Int) {
	n := d.vt.NumReplacements(d.vt.BucketIndex(idOf(id)))
	if n > 0 {
		d.vt.SetRand(int(new(big.Int).Mod(rnd, big.NewInt(int64(n))).Int64()))
	} else {
		d.vt.SetRand(0)
	}
}

type recT struct {
	id       *big.Int
	raw      []byte
	udp, seq uint64
}

func decRec(l []Sx) recT {
	r := recT{id: AsBig(l[0]), raw: AsBytes(l[1]), udp: AsU64(l[2]), seq: AsU64(l[3])}
	checkID(r.id)
	if len(r.raw) != 0 && len(r.raw) != 4 && len(r.raw) != 16 {
		panic("hxlib: bad ip length")
	}
	return r
}

func (r recT) node() *enode.Node { return mkNode(r.id, r.raw, r.udp, r.seq) }

// ---------- the direct property oracle (independent of the Coq model) ----------

func bitLenXor(a, b *big.Int) int { return new(big.Int).Xor(a, b).BitLen() }

func isLAN(a netip.Addr) bool {
	ip := net.IP(a.AsSlice()) // the net.IP predicates, not the netip ones the table uses
	return ip.IsLoopback() || ip.IsPrivate() || ip.IsLinkLocalUnicast()
}

// subnetOf computes the real network of an address independently of netutil: the /24 of the
// IPv4 address for 4-byte and IPv4-mapped 16-byte addresses, the top 24 bits otherwise.
func subnetOf(a netip.Addr) string {
	b := a.As16()
	mapped := true
	for i := 0; i < 10; i++ {
		if b[i] != 0 {
			mapped = false
		}
	}
	if a.Is4() || (mapped && b[10] == 0xff && b[11] == 0xff) {
		return fmt.Sprintf("4:%x", b[12:15])
	}
	return fmt.Sprintf("6:%x", b[:3])
}

func prefixStr(p netip.Prefix) string {
	a := p.Addr()
	if p.Bits() != 24 {
		return "bad:" + p.String()
	}
	return subnetOf(a)
}

func sameCounts(have map[netip.Prefix]uint, want map[string]int) string {
	got := map[string]int{}
	for p, v := range have {
		if v == 0 {
			return "zero counter stored for " + p.String()
		}
		got[prefixStr(p)] += int(v)
	}
	for k, v := range want {
		if got[k] != v {
			return fmt.Sprintf("subnet %s: counter %d, tracked nodes %d", k, got[k], v)
		}
	}
	for k, v := range got {
		if want[k] != v {
			return fmt.Sprintf("subnet %s: counter %d, tracked nodes %d", k, v, want[k])
		}
	}
	return ""
}

func (d *driver) tableInv() string {
	total := map[string]int{}
	inEntries := map[*discover.VerifTableNode]bool{}
	for i := 0; i < d.vt.NumBuckets(); i++ {
		b := d.vt.DumpBucket(i)
		if len(b.Entries) > 16 {
			return fmt.Sprintf("bucket %d holds %d entries", i, len(b.Entries))
		}
		if len(b.Replacements) > 10 {
			return fmt.Sprintf("bucket %d holds %d replacements", i, len(b.Replacements))
		}
		if len(b.Entries) < 16 && len(b.Replacements) > 0 {
			return fmt.Sprintf("bucket %d not full (%d) but has %d replacements", i, len(b.Entries), len(b.Replacements))
		}
		seen := map[enode.ID]bool{}
		cnt := map[string]int{}
		for li, l := range [][]discover.VerifNodeInfo{b.Entries, b.Replacements} {
			for _, n := range l {
				id := n.Node.ID()
				dist := bitLenXor(d.self, idNum(id))
				if dist == 0 {
					return fmt.Sprintf("bucket %d contains the local node", i)
				}
				want := 0
				if dist > 240 {
					want = dist - 240
				}
				if want != i {
					return fmt.Sprintf("node at log-distance %d sits in bucket %d", dist, i)
				}
				if seen[id] {
					return fmt.Sprintf("bucket %d holds id %x twice", i, id[:4])
				}
				seen[id] = true
				a := n.Node.IPAddr()
				if !a.IsValid() || a.IsUnspecified() {
					return fmt.Sprintf("bucket %d tracks a node without usable IP", i)
				}
				if !isLAN(a) {
					cnt[subnetOf(a)]++
					total[subnetOf(a)]++
				}
				if li == 0 {
					inEntries[n.Handle] = true
					if n.RevalList != 1 && n.RevalList != 2 {
						return fmt.Sprintf("bucket %d entry with revalList tag %d", i, n.RevalList)
					}
				} else if n.RevalList != 0 {
					return fmt.Sprintf("bucket %d replacement on a revalidation list", i)
				}
			}
		}
		for k, v := range cnt {
			if v > 2 {
				return fmt.Sprintf("bucket %d tracks %d nodes of subnet %s", i, v, k)
			}
		}
		if msg := sameCounts(b.IPs, cnt); msg != "" {
			return fmt.Sprintf("bucket %d IP set: %s", i, msg)
		}
	}
	for k, v := range total {
		if v > 10 {
			return fmt.Sprintf("table tracks %d nodes of subnet %s", v, k)
		}
	}
	if msg := sameCounts(d.vt.TableIPs(), total); msg != "" {
		return "table IP set: " + msg
	}
	fast, slow := d.vt.RevalLists()
	if len(fast)+len(slow) != len(inEntries) {
		return fmt.Sprintf("revalidation lists hold %d nodes, table has %d entries", len(fast)+len(slow), len(inEntries))
	}
	dup := map[*discover.VerifTableNode]bool{}
	for _, l := range [][]*discover.VerifTableNode{fast, slow} {
		for _, h := range l {
			if !inEntries[h] || dup[h] {
				return "revalidation lists hold a node that is not a (distinct) table entry"
			}
			dup[h] = true
		}
	}
	return ""
}

func (d *driver) findOracle(target *big.Int, n int, preferLive bool, got []*enode.Node) string {
	type cand struct {
		id   *big.Int
		dist *big.Int
	}
	var all, live []cand
	for i := 0; i < d.vt.NumBuckets(); i++ {
		for _, e := range d.vt.DumpBucket(i).Entries {
			id := idNum(e.Node.ID())
			c := cand{id, new(big.Int).Xor(id, target)}
			all = append(all, c)
			if e.Live {
				live = append(live, c)
			}
		}
	}
	cs := all
	if preferLive && len(live) > 0 && n > 0 {
		cs = live
	}
	sort.Slice(cs, func(i, j int) bool { return cs[i].dist.Cmp(cs[j].dist) < 0 })
	if n < 0 {
		n = 0
	}
	if len(cs) > n {
		cs = cs[:n]
	}
	if len(got) != len(cs) {
		return fmt.Sprintf("findnode returned %d nodes, the %d nearest exist", len(got), len(cs))
	}
	for i := range cs {
		if idNum(got[i].ID()).Cmp(cs[i].id) != 0 {
			return fmt.Sprintf("findnode result %d is not the %d-th nearest node", i, i)
		}
	}
	return ""
}

// ---------- running one case ----------

func run(c Sx) (res Result) {
	l := AsList(c)
	self := AsBig(l[0])
	checkID(self)
	vt, err := discover.NewVerifTable(mkNode(self, []byte{127, 0, 0, 1}, 30303, 1))
	if err != nil {
		panic(err)
	}
	defer vt.Close()
	d := &driver{vt: vt, self: self, toks: map[*discover.VerifTableNode]*big.Int{}, ptrs: map[string]*discover.VerifTableNode{}, tags: map[string]bool{}}
	outs := SL{}
	var oracle string
	fail := func(i int, msg string) {
		if oracle == "" && msg != "" {
			oracle = fmt.Sprintf("after op %d: %s", i, msg)
		}
	}
	// pre-decode every op so that shape errors are reported as such, not as implementation panics
	type opT struct {
		kind  int
		f     []Sx
		recs  []recT
		toks  []*big.Int
		extra []*big.Int
	}
	var ops []opT
	for _, o := range l[1:] {
		f := AsList(o)
		op := opT{kind: AsInt(f[0]), f: f}
		switch op.kind {
		case 0:
		case 1:
			op.recs = []recT{decRec(f[1:5])}
			op.toks = []*big.Int{AsBig(f[5])}
			AsBool(f[6])
			AsBool(f[7])
		case 2:
			id := AsBig(f[1])
			checkID(id)
			op.extra = []*big.Int{id, AsBig(f[2])}
		case 3:
			hint := AsBig(f[2])
			checkID(hint)
			nr := AsList(f[4])
			if len(nr) != 0 {
				op.recs = []recT{decRec(nr)}
			}
			op.extra = []*big.Int{AsBig(f[1]), hint, AsBig(f[5])}
			AsBool(f[3])
		case 4:
			id := AsBig(f[1])
			checkID(id)
			for _, x := range AsList(f[4]) {
				xl := AsList(x)
				op.recs = append(op.recs, decRec(xl))
				op.toks = append(op.toks, AsBig(xl[4]))
			}
			op.extra = []*big.Int{id, AsBig(f[3]), AsBig(f[5])}
			AsBool(f[2])
		case 5:
			tg := AsBig(f[1])
			checkID(tg)
			if AsInt(f[2]) < 0 || AsInt(f[2]) >= 1000 {
				panic("hxlib: nresults out of range")
			}
			op.extra = []*big.Int{tg}
			AsBool(f[3])
		default:
			panic("hxlib: unknown op")
		}
		ops = append(ops, op)
	}

	step := func(i int, op opT) (out Sx, ok bool) {
		defer func() {
			if e := recover(); e != nil {
				out, ok = dead, false
				fail(i, fmt.Sprintf("the table panicked: %v", e))
			}
		}()
		f := op.f
		switch op.kind {
		case 0:
			vt.InitDone()
			return L(L(), L(), encIPs(vt.TableIPs())), true
		case 1:
			r := op.recs[0]
			bi := vt.BucketIndex(idOf(r.id))
			before := vt.DumpBucket(bi)
			added := vt.HandleAddNode(r.node(), AsBool(f[6]), AsBool(f[7]))
			d.learn(r.id, op.toks[0])
			after := vt.DumpBucket(bi)
			d.tagAdd(r, before, after, added)
			return L(Bool(added), d.encTouched([]*big.Int{r.id}), encIPs(vt.TableIPs())), true
		case 2:
			id := op.extra[0]
			d.setRand(id, op.extra[1])
			rep := vt.DeleteNode(idOf(id))
			ret := L()
			if rep != nil {
				ret = L(Big(idNum(rep.ID())))
				d.tags["promote"] = true
			}
			return L(ret, d.encTouched([]*big.Int{id}), encIPs(vt.TableIPs())), true
		case 3:
			tok, hint, rnd := op.extra[0], op.extra[1], op.extra[2]
			if h, known := d.ptrs[tok.String()]; known {
				d.setRand(idNum(h.ID()), rnd)
				var nr *enode.Node
				if len(op.recs) > 0 {
					nr = op.recs[0].node()
					d.tags["reval-newrec"] = true
				}
				if h2 := d.current(h); h2 == nil {
					d.tags["reval-stale"] = true
				} else if AsBool(f[3]) {
					d.tags["reval-ok"] = true
				} else {
					d.tags["reval-fail"] = true
				}
				vt.HandleResponse(h, AsBool(f[3]), nr)
			} else {
				d.tags["reval-unknown"] = true
			}
			return L(L(), d.encTouched([]*big.Int{hint}), encIPs(vt.TableIPs())), true
		case 4:
			id, prior, rnd := op.extra[0], op.extra[1], op.extra[2]
			tn := mkNode(id, []byte{1, 1, 1, 1}, 30303, 0)
			vt.SetFindFails(tn, int(prior.Int64()))
			d.setRand(id, rnd)
			var found []*enode.Node
			ids := []*big.Int{id}
			for _, r := range op.recs {
				found = append(found, r.node())
				ids = append(ids, r.id)
			}
			vt.HandleTrackRequest(tn, AsBool(f[2]), found)
			for k, r := range op.recs {
				d.learn(r.id, op.toks[k])
			}
			d.tags["track"] = true
			return L(L(), d.encTouched(ids), encIPs(vt.TableIPs())), true
		case 5:
			n := AsInt(f[2])
			got := vt.FindnodeByID(idOf(op.extra[0]), n, AsBool(f[3]))
			fail(i, d.findOracle(op.extra[0], n, AsBool(f[3]), got))
			o := SL{}
			for _, g := range got {
				o = append(o, Big(idNum(g.ID())))
			}
			if len(got) >= 2 {
				d.tags["find>=2"] = true
			}
			return o, true
		}
		panic("hxlib: unknown op")
	}

	alive := true
	for i, op := range ops {
		out, ok := step(i, op)
		outs = append(outs, out)
		if !ok {
			alive = false
			break
		}
		if op.kind != 5 {
			fail(i, d.tableInv())
			d.tagState()
		}
	}
	if alive {
		res.Obs = L(outs, d.encTable())
	} else {
		res.Obs = L(outs, L())
	}
	res.Oracle = oracle
	for t := range d.tags {
		res.Tags = append(res.Tags, t)
	}
	res.Tags = append(res.Tags, fmt.Sprintf("ops%d", min(len(ops)/50*50, 300)))
	res.NonTrivial = d.tags["full"] && d.tags["repl"] && (d.tags["promote"] || d.tags["iplimit"])
	return res
}

// current returns h if the pointer is still an entry of its bucket.
func (d *driver) current(h *discover.VerifTableNode) *discover.VerifTableNode {
	b := d.vt.DumpBucket(d.vt.BucketIndex(h.ID()))
	for _, n := range b.Entries {
		if n.Handle == h {
			return h
		}
	}
	return nil
}

func (d *driver) tagAdd(r recT, before, after discover.VerifBucket, added bool) {
	if added {
		d.tags["added"] = true
		return
	}
	id := idOf(r.id)
	for _, n := range before.Entries {
		if n.Node.ID() == id {
			for _, m := range after.Entries {
				if m.Node.ID() == id && (m.Node.IPAddr() != n.Node.IPAddr() || m.Node.UDP() != n.Node.UDP()) {
					d.tags["endpoint-change"] = true
				}
			}
			d.tags["bump"] = true
			return
		}
	}
	a := r.node().IPAddr()
	if r.id.Cmp(d.self) != 0 && a.IsValid() && !a.IsUnspecified() && !isLAN(a) &&
		len(after.Entries) == len(before.Entries) && len(after.Replacements) == len(before.Replacements) {
		inRepl := false
		for _, n := range before.Replacements {
			if n.Node.ID() == id {
				inRepl = true
			}
		}
		if !inRepl && (len(before.Replacements) < 10 || len(before.Entries) < 16) {
			d.tags["iplimit"] = true
		}
	}
	if len(before.Replacements) == 10 && len(after.Replacements) == 10 && len(before.Replacements) > 0 &&
		before.Replacements[0].Handle != after.Replacements[0].Handle {
		d.tags["evict"] = true
	}
}

func (d *driver) tagState() {
	for i := 0; i < d.vt.NumBuckets(); i++ {
		b := d.vt.DumpBucket(i)
		if len(b.Entries) == 16 {
			d.tags["full"] = true
		}
		if len(b.Replacements) > 0 {
			d.tags["repl"] = true
		}
	}
}

// ---------- generation ----------

type poolNode struct {
	id  *big.Int
	raw []byte
	udp uint64
	seq uint64
}

func randID(r *Rng) *big.Int { return new(big.Int).SetBytes(r.Bytes(32)) }

// idAtDist returns an id at log-distance d (1..256) from self.
func idAtDist(r *Rng, self *big.Int, d int) *big.Int {
	x := new(big.Int).SetBytes(r.Bytes(32))
	x.Rsh(x, uint(256-d+1)) // d-1 random low bits
	x.SetBit(x, d-1, 1)
	return x.Xor(x, self)
}

func genIP(r *Rng, nsub int, lanPct int) []byte {
	k := r.Intn(100)
	switch {
	case k < lanPct:
		switch r.Intn(7) {
		case 0:
			return []byte{10, byte(r.Intn(3)), byte(r.Intn(3)), byte(1 + r.Intn(250))}
		case 1:
			return []byte{192, 168, byte(r.Intn(2)), byte(1 + r.Intn(250))}
		case 2:
			return []byte{172, byte(16 + r.Intn(16)), 0, byte(1 + r.Intn(250))}
		case 3:
			return []byte{127, 0, 0, byte(1 + r.Intn(3))}
		case 4:
			return []byte{169, 254, 1, byte(1 + r.Intn(250))}
		case 5:
			b := make([]byte, 16)
			b[0], b[1], b[15] = 0xfd, 0x00, byte(1+r.Intn(250))
			if r.Bool() {
				b[0], b[1] = 0xfe, 0x80
			}
			return b
		default: // IPv4-mapped private address
			b := make([]byte, 16)
			b[10], b[11] = 0xff, 0xff
			copy(b[12:], []byte{10, 0, 0, byte(1 + r.Intn(250))})
			return b
		}
	case k < lanPct+4:
		switch r.Intn(6) {
		case 0:
			return nil
		case 1:
			return []byte{0, 0, 0, 0}
		case 2:
			return make([]byte, 16)
		case 3:
			return []byte{224, 0, 0, byte(r.Intn(5))}
		case 4:
			b := make([]byte, 16)
			b[0], b[15] = 0xff, 2
			return b
		default: // ::1
			b := make([]byte, 16)
			b[15] = 1
			return b
		}
	case k < lanPct+12: // public IPv6, few /24s
		b := make([]byte, 16)
		b[0], b[1], b[2] = 0x2a, 0x01, byte(r.Intn(1+nsub/4))
		copy(b[8:], r.Bytes(8))
		return b
	case k < lanPct+20: // IPv4-mapped public addresses (same /24s as the plain IPv4 ones)
		b := make([]byte, 16)
		b[10], b[11] = 0xff, 0xff
		copy(b[12:], []byte{8, 8, byte(r.Intn(nsub)), byte(1 + r.Intn(250))})
		return b
	default: // public IPv4, nsub different /24s
		return []byte{8, 8, byte(r.Intn(nsub)), byte(1 + r.Intn(250))}
	}
}

func recSx(id *big.Int, raw []byte, udp, seq uint64) []Sx {
	return []Sx{Big(id), B(raw), U(udp), U(seq)}
}

func genCase(r *Rng, nops int, emit func(Sx)) {
	self := randID(r)
	nsub := []int{2, 5, 12, 30, 60, 60}[r.Intn(6)]
	lanPct := []int{0, 10, 30, 60}[r.Intn(4)]
	npool := 20 + r.Intn(100)
	// concentrate ids: a case-specific favourite set of distances
	fav := []int{256, 255, 254, 253, 250, 245, 241, 240, 239, 200, 17, 1}
	nfav := 1 + r.Intn(3)
	pool := make([]*poolNode, npool)
	for i := range pool {
		var d int
		if r.Chance(4, 5) {
			d = fav[r.Intn(nfav)]
			if r.Chance(1, 8) {
				d = fav[r.Intn(len(fav))]
			}
		} else {
			d = 256 - r.Intn(18)
		}
		pool[i] = &poolNode{id: idAtDist(r, self, d), raw: genIP(r, nsub, lanPct), udp: uint64(30000 + r.Intn(4)), seq: uint64(r.Intn(3))}
	}
	type issued struct {
		tok *big.Int
		p   *poolNode
	}
	var toks []issued
	next := int64(1)
	fresh := func(p *poolNode) *big.Int {
		t := big.NewInt(next)
		next++
		toks = append(toks, issued{t, p})
		return t
	}
	pick := func() *poolNode { return pool[r.Intn(len(pool))] }
	// a changed or unchanged view of a pool node's record
	view := func(p *poolNode) (raw []byte, udp, seq uint64) {
		raw, udp, seq = p.raw, p.udp, p.seq
		switch r.Intn(10) {
		case 0:
			raw = genIP(r, nsub, lanPct)
			seq++
		case 1:
			udp = uint64(30000 + r.Intn(4))
			seq++
		case 2:
			seq += uint64(r.Intn(3))
		case 3:
			raw = genIP(r, nsub, lanPct) // endpoint change without seq advance (only inbound applies it)
		}
		if r.Chance(1, 2) {
			p.raw, p.udp, p.seq = raw, udp, seq
		}
		return
	}
	out := SL{Big(self)}
	initAt := 0
	if r.Chance(1, 5) {
		initAt = r.Intn(nops)
	}
	for i := 0; i < nops; i++ {
		if i == initAt {
			out = append(out, L(I(0)))
		}
		k := r.Intn(100)
		switch {
		case k < 62: // handleAddNode
			p := pick()
			id := p.id
			if r.Chance(1, 60) {
				id = self
			}
			raw, udp, seq := view(p)
			f := append([]Sx{I(1)}, recSx(id, raw, udp, seq)...)
			f = append(f, Big(fresh(p)), Bool(r.Chance(3, 10)), Bool(r.Chance(1, 5)))
			out = append(out, SL(f))
		case k < 70: // deleteNode
			out = append(out, L(I(2), Big(pick().id), U(r.U64()>>1)))
		case k < 85: // revalidation response
			var tok, hint *big.Int
			var p *poolNode
			if len(toks) == 0 || r.Chance(1, 30) {
				tok, p = big.NewInt(1000000+int64(r.Intn(10))), pick()
			} else {
				it := toks[r.Intn(len(toks))]
				if r.Chance(1, 2) && len(toks) > 8 {
					it = toks[len(toks)-1-r.Intn(8)]
				}
				tok, p = it.tok, it.p
			}
			hint = p.id
			nr := L()
			if r.Chance(3, 10) {
				id := p.id
				if r.Chance(1, 15) {
					id = pick().id
				}
				raw, udp, seq := view(p)
				if r.Chance(1, 2) {
					seq = p.seq + 1 + uint64(r.Intn(2))
					p.seq = seq
				}
				nr = SL(recSx(id, raw, udp, seq))
			}
			out = append(out, L(I(3), Big(tok), Big(hint), Bool(r.Chance(11, 20)), nr, U(r.U64()>>1)))
		case k < 90: // trackRequest
			p := pick()
			found := SL{}
			seen := map[string]bool{}
			for j := r.Intn(6); j > 0; j-- {
				q := pick()
				if seen[q.id.String()] {
					continue
				}
				seen[q.id.String()] = true
				raw, udp, seq := view(q)
				found = append(found, SL(append(recSx(q.id, raw, udp, seq), Big(fresh(q)))))
			}
			prior := []int64{0, 3, 4, 4, 9}[r.Intn(5)]
			out = append(out, L(I(4), Big(p.id), Bool(r.Chance(3, 10)), I(prior), found, U(r.U64()>>1)))
		default: // findnodeByID
			var tg *big.Int
			switch r.Intn(4) {
			case 0:
				tg = randID(r)
			case 1:
				tg = new(big.Int).Set(self)
			case 2:
				tg = new(big.Int).Set(pick().id)
			default:
				tg = idAtDist(r, pick().id, 1+r.Intn(256))
			}
			n := []int{0, 1, 3, 16, 16, 16, 40, 400}[r.Intn(8)]
			out = append(out, L(I(5), Big(tg), I(int64(n)), Bool(r.Bool())))
		}
	}
	emit(out)
}

func gen(r *Rng, tier string, emit func(Sx)) {
	n := 260
	if tier == "thorough" {
		n = 8000
	}
	for i := 0; i < n; i++ {
		nops := 20 + r.Intn(60)
		switch r.Intn(5) {
		case 0, 1:
			nops = 150 + r.Intn(250)
		case 2:
			nops = 80 + r.Intn(100)
		}
		genCase(r.Fork(), nops, emit)
	}
	// adversarial stream: arbitrary ids (not placed by distance), all nodes in one /24, tiny pools
	for i := 0; i < n/8; i++ {
		rr := r.Fork()
		self := randID(rr)
		out := SL{Big(self), L(I(0))}
		for j := 0; j < 60; j++ {
			id := randID(rr)
			if rr.Chance(1, 4) {
				id = idAtDist(rr, self, 256)
			}
			raw := []byte{9, 9, 9, byte(rr.Intn(256))}
			if rr.Chance(1, 6) {
				raw = rr.Bytes(4)
			}
			if rr.Chance(1, 10) {
				raw = rr.Bytes(16)
			}
			f := append([]Sx{I(1)}, recSx(id, raw, uint64(rr.Intn(3)), uint64(rr.Intn(2)))...)
			f = append(f, I(int64(j+1)), Bool(rr.Bool()), Bool(rr.Bool()))
			out = append(out, SL(f))
			if rr.Chance(1, 5) {
				out = append(out, L(I(3), I(int64(1+rr.Intn(j+1))), Big(id), Bool(rr.Bool()), L(), U(rr.U64()>>1)))
			}
			if rr.Chance(1, 8) {
				out = append(out, L(I(5), Big(randID(rr)), I(int64(rr.Intn(20))), Bool(rr.Bool())))
			}
		}
		emit(out)
	}
}

func main() {
	Main(Family{
		ID: "C46",
		Rule: "each case is one table history: a random local id, a pool of 20-120 node identities whose ids are crafted at chosen log-distances " +
			"(1-4 favourite distances per case so that buckets fill; bucket 0 distances 1..240 included), addresses drawn from 2-60 public IPv4 /24s, " +
			"a few IPv6 /24s, IPv4-mapped addresses, LAN/loopback/link-local, and unusable ones (none, unspecified, multicast); 20-400 operations: " +
			"handleAddNode (inbound/found, forceSetLive, changed endpoints/seq), deleteNode, revalidation responses (ok/failed, with new records, for live, " +
			"replaced, removed and never-allocated *tableNode pointers), handleTrackRequest (preset failure counters, found nodes), findnodeByID " +
			"(random/self/near targets, n in 0..400, preferLive); plus an adversarial stream with unplaced random ids and everything in one /24. " +
			"Non-trivial: the history filled a bucket, created replacements, and either promoted a replacement on removal or hit an IP limit; " +
			"distinct = distinct case line.",
		Gen: gen,
		Run: run,
	})
}
