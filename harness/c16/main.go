// Family c16: triedb/pathdb layered state reads (layertree.go, lookup.go, difflayer.go,
// disklayer.go, buffer.go, reader.go, database.go) vs coq/PathDB/Layers.v + Lookup.v.
//
// A case is a configuration and a history of Update / cap / Commit / flush operations
// interleaved with explicit read batches (see coq/Run/C16.v for the format).  The real
// database is driven through pathdb.New (memory key-value store), Database.Update,
// Database.Commit, Database.StateReader / NodeReader and the thin hook VerifC16Cap.
// The oracle is an independent map-per-root reference: a state is the copy of its
// parent's maps with the diff applied; cap keeps exactly the descendants of the new base.
package main

import (
	"errors"
	"fmt"
	"sort"
	"strings"

	"github.com/ethereum/go-ethereum/common"
	"github.com/ethereum/go-ethereum/core/rawdb"
	"github.com/ethereum/go-ethereum/core/types"
	"github.com/ethereum/go-ethereum/crypto"
	"github.com/ethereum/go-ethereum/trie/trienode"
	"github.com/ethereum/go-ethereum/triedb/pathdb"
	. "gethverif/harness/hxlib"
)

// ---- identifiers ---------------------------------------------------------------

func ai(x Sx) int64 { return int64(AsInt(x)) }

func rootHash(id int64) common.Hash {
	if id == 0 {
		return types.EmptyRootHash
	}
	return common.Hash{0xC1, byte(id >> 16), byte(id >> 8), byte(id)}
}
func acctHash(a int64) common.Hash { return common.Hash{0xA0, byte(a >> 16), byte(a >> 8), byte(a)} }
func slotHash(s int64) common.Hash { return common.Hash{0x50, byte(s >> 16), byte(s >> 8), byte(s)} }
func ownerHash(o int64) common.Hash {
	if o == 0 {
		return common.Hash{}
	}
	return acctHash(o)
}

type skey struct {
	slot bool
	a, s int64
}
type nkey struct {
	owner int64
	path  string
}

func decSkey(x Sx) skey {
	l := AsList(x)
	if len(l) == 1 {
		return skey{false, ai(l[0]), 0}
	}
	return skey{true, ai(l[0]), ai(l[1])}
}

// ---- reference (oracle) --------------------------------------------------------

type refState struct {
	parent int64
	depth  int
	st     map[skey][]byte
	nd     map[nkey][]byte
}
type refTree struct {
	live      map[int64]*refState
	base      int64
	maxlayers int
}

func newRef(maxlayers int) *refTree {
	return &refTree{live: map[int64]*refState{0: {parent: -1, st: map[skey][]byte{}, nd: map[nkey][]byte{}}}, maxlayers: maxlayers}
}

// classes follow coq/Run/C16.v err_code
func (t *refTree) cap(root int64, n int) int {
	l := t.live[root]
	if l == nil {
		return 3
	}
	if root == t.base {
		return 4
	}
	if n == 0 {
		t.live = map[int64]*refState{root: l}
		t.base = root
		return 0
	}
	cur := root
	for i := 0; i < n; i++ {
		if cur == t.base {
			return 0 // too shallow
		}
		cur = t.live[cur].parent
	}
	if cur == t.base {
		return 0
	}
	// keep the descendants-or-self of cur
	keep := map[int64]*refState{}
	for r := range t.live {
		x := r
		for x != cur && x != t.base {
			x = t.live[x].parent
		}
		if x == cur {
			keep[r] = t.live[r]
		}
	}
	t.live = keep
	t.base = cur
	return 0
}

func (t *refTree) update(root, parent int64, st map[skey][]byte, nd map[nkey][]byte) int {
	if root == parent {
		return 5
	}
	if t.live[root] == nil {
		p := t.live[parent]
		if p == nil {
			return 6
		}
		n := &refState{parent: parent, depth: p.depth + 1, st: make(map[skey][]byte, len(p.st)+len(st)), nd: make(map[nkey][]byte, len(p.nd)+len(nd))}
		for k, v := range p.st {
			n.st[k] = v
		}
		for k, v := range p.nd {
			n.nd[k] = v
		}
		for k, v := range st {
			n.st[k] = v
		}
		for k, v := range nd {
			n.nd[k] = v
		}
		t.live[root] = n
	}
	return t.cap(root, t.maxlayers)
}

// ---- running the implementation ---------------------------------------------------

func errClass(err error) int64 {
	if err == nil {
		return 0
	}
	msg := err.Error()
	switch {
	case errors.Is(err, pathdb.VerifC16ErrStale):
		return 1
	case strings.Contains(msg, "is not available"):
		return 2
	case strings.Contains(msg, "parent") && strings.Contains(msg, "layer missing"):
		return 6
	case strings.Contains(msg, "missing"):
		return 3
	case strings.Contains(msg, "is disk layer"):
		return 4
	case strings.Contains(msg, "layer cycle"):
		return 5
	case strings.Contains(msg, "cannot be applied on top of persisted state"):
		return 7
	case strings.Contains(msg, "the buffer is not frozen"):
		return 8
	case strings.Contains(msg, "unexpected node"):
		return 30
	case errors.Is(err, pathdb.VerifC16ErrNotCovered):
		return 31
	}
	return 39
}

type accountRLPer interface {
	AccountRLP(hash common.Hash) ([]byte, error)
}

func buildSets(ss, ns Sx) (map[skey][]byte, map[nkey][]byte, *trienode.MergedNodeSet, *pathdb.StateSetWithOrigin) {
	st := map[skey][]byte{}
	accounts := map[common.Hash][]byte{}
	storages := map[common.Hash]map[common.Hash][]byte{}
	for _, e := range AsList(ss) {
		l := AsList(e)
		if len(l) == 2 {
			a, v := ai(l[0]), AsBytes(l[1])
			st[skey{false, a, 0}] = v
			accounts[acctHash(a)] = v
		} else {
			a, s, v := ai(l[0]), ai(l[1]), AsBytes(l[2])
			st[skey{true, a, s}] = v
			if storages[acctHash(a)] == nil {
				storages[acctHash(a)] = map[common.Hash][]byte{}
			}
			storages[acctHash(a)][slotHash(s)] = v
		}
	}
	nd := map[nkey][]byte{}
	for _, e := range AsList(ns) {
		l := AsList(e)
		nd[nkey{ai(l[0]), string(AsBytes(l[1]))}] = AsBytes(l[2])
	}
	merged := trienode.NewMergedNodeSet()
	byOwner := map[int64]*trienode.NodeSet{}
	for k, v := range nd {
		set := byOwner[k.owner]
		if set == nil {
			set = trienode.NewNodeSet(ownerHash(k.owner))
			byOwner[k.owner] = set
		}
		if len(v) == 0 {
			set.AddNode([]byte(k.path), trienode.NewDeletedWithPrev(nil))
		} else {
			set.AddNode([]byte(k.path), trienode.NewNodeWithPrev(crypto.Keccak256Hash(v), v, nil))
		}
	}
	for _, set := range byOwner {
		if err := merged.Merge(set); err != nil {
			panic("hxlib: merge node set: " + err.Error())
		}
	}
	return st, nd, merged, pathdb.NewStateSetWithOrigin(accounts, storages, nil, nil, false)
}

// readNode reads a trie node through the public NodeReader; the expected hash is
// not known to the reader of an arbitrary state, so the candidates are tried: the
// hash of the reference value (oracle), the zero hash (deleted node held in a
// diff/buffer) and the hash of the empty blob (node absent on disk).
func readNode(nr interface {
	Node(owner common.Hash, path []byte, hash common.Hash) ([]byte, error)
}, k nkey, want []byte) ([]byte, error) {
	cands := []common.Hash{crypto.Keccak256Hash(want), {}, crypto.Keccak256Hash(nil)}
	var lastErr error
	for _, h := range cands {
		blob, err := nr.Node(ownerHash(k.owner), []byte(k.path), h)
		if err == nil {
			return blob, nil
		}
		lastErr = err
		if !strings.Contains(err.Error(), "unexpected node") {
			return nil, err
		}
	}
	return nil, lastErr
}

func rootID(h common.Hash) int64 {
	if h == types.EmptyRootHash {
		return 0
	}
	if h[0] == 0xC1 {
		return int64(h[1])<<16 | int64(h[2])<<8 | int64(h[3])
	}
	return -3
}

func run(c Sx) (res Result) {
	l := AsList(c)
	cf := AsList(l[0])
	limit, noasync, maxlayers, cache := int(ai(cf[0])), ai(cf[1]) == 1, int(ai(cf[2])), ai(cf[4]) == 1
	pathdb.VerifC16SetMaxDiffLayers(maxlayers)
	conf := &pathdb.Config{WriteBufferSize: limit, NoAsyncFlush: noasync, NoAsyncGeneration: true, TrienodeHistory: -1}
	if cache {
		conf.TrieCleanSize, conf.StateCleanSize = 1<<20, 1<<20
	}
	db := pathdb.New(rawdb.NewMemoryDatabase(), conf, false)
	ref := newRef(maxlayers)
	var (
		obs      []Sx
		fails    []string
		tags     = map[string]bool{}
		nread    int
		flattens int
		forks    int
		maxDepth int
	)
	fail := func(f string, a ...interface{}) {
		if len(fails) < 3 {
			fails = append(fails, fmt.Sprintf(f, a...))
		}
	}
	finish := func() Result {
		res := Result{Obs: SL(obs)}
		if len(fails) > 0 {
			res.Oracle = strings.Join(fails, " | ")
		}
		for t := range tags {
			res.Tags = append(res.Tags, t)
		}
		res.Tags = append(res.Tags, fmt.Sprintf("depth%d", min(maxDepth/10*10, 300)), fmt.Sprintf("maxlayers%d", maxlayers))
		res.NonTrivial = flattens >= 1 && nread >= 20 && len(l) >= 8
		if forks > 0 {
			res.Tags = append(res.Tags, "fork-survivor")
		}
		return res
	}
	panicked := false
	mut := func(opname string, want int, f func() error) {
		var cls int64
		func() {
			defer func() {
				if e := recover(); e != nil {
					panicked = true
					fail("%s panicked: %v", opname, e)
				}
			}()
			cls = errClass(f())
		}()
		if panicked {
			obs = append(obs, L(I(99)))
			tags["panic"] = true
			return
		}
		base := rootID(db.VerifC16BaseRoot())
		n := db.VerifC16Len()
		obs = append(obs, L(I(cls), I(base), I(int64(n))))
		if cls != 0 {
			tags[fmt.Sprintf("muterr%d", cls)] = true
		}
		if int64(want) != cls {
			fail("%s returned class %d, reference expects %d", opname, cls, want)
		} else if base != ref.base || n != len(ref.live) {
			fail("%s: base %d layers %d, reference base %d layers %d", opname, base, n, ref.base, len(ref.live))
		}
		for r := range ref.live {
			if !db.VerifC16Live(rootHash(r)) {
				fail("%s: root %d live in the reference but dropped", opname, r)
				break
			}
		}
	}
	for _, o := range l[1:] {
		ol := AsList(o)
		switch ai(ol[0]) {
		case 0:
			root, parent := ai(ol[1]), ai(ol[2])
			st, nd, merged, states := buildSets(ol[3], ol[4])
			oldBase, oldLen := ref.base, len(ref.live)
			if p := ref.live[parent]; p != nil && ref.live[root] == nil && root != parent {
				// a fork directly on the layer that this very update flattens?
				if p.depth+1 > maxDepth {
					maxDepth = p.depth + 1
				}
			}
			want := ref.update(root, parent, st, nd)
			if ref.base != oldBase {
				flattens++
				tags["flatten"] = true
				for r, s := range ref.live {
					if s.parent == ref.base && r != ref.base && len(ref.live) > 2 {
						// more than one child of the new base = a sibling of the capped path survived
						cnt := 0
						for _, s2 := range ref.live {
							if s2.parent == ref.base {
								cnt++
							}
						}
						if cnt > 1 {
							forks++
						}
						break
					}
				}
				_ = oldLen
			}
			mut(fmt.Sprintf("Update(%d<-%d)", parent, root), want, func() error {
				return db.Update(rootHash(root), rootHash(parent), 0, merged, states)
			})
		case 1, 2:
			root, n := ai(ol[1]), 0
			if ai(ol[0]) == 1 {
				n = int(ai(ol[2]))
			}
			oldBase := ref.base
			want := ref.cap(root, n)
			if ref.base != oldBase {
				flattens++
				tags["flatten"] = true
				cnt := 0
				for _, s2 := range ref.live {
					if s2.parent == ref.base {
						cnt++
					}
				}
				if cnt > 1 {
					forks++
				}
			}
			if ai(ol[0]) == 1 {
				mut(fmt.Sprintf("cap(%d,%d)", root, n), want, func() error { return db.VerifC16Cap(rootHash(root), n) })
			} else {
				mut(fmt.Sprintf("Commit(%d)", root), want, func() error { return db.Commit(rootHash(root), false) })
			}
		case 3:
			root := ai(ol[1])
			rs := ref.live[root]
			if rs == nil {
				tags["read-dropped"] = true
			}
			var so, no []Sx
			sr, serr := db.StateReader(rootHash(root))
			nr, nerr := db.NodeReader(rootHash(root))
			if (serr == nil) != (rs != nil) || (nerr == nil) != (rs != nil) {
				fail("reader for root %d: err=%v / %v, reference live=%v", root, serr, nerr, rs != nil)
			}
			for _, kx := range AsList(ol[2]) {
				k := decSkey(kx)
				var blob []byte
				err := serr
				if err == nil {
					if k.slot {
						blob, err = sr.Storage(acctHash(k.a), slotHash(k.s))
					} else {
						blob, err = sr.(accountRLPer).AccountRLP(acctHash(k.a))
					}
				}
				nread++
				if err != nil {
					so = append(so, L(I(1), I(errClass(err))))
					tags[fmt.Sprintf("readerr%d", errClass(err))] = true
					if rs != nil {
						fail("state read at live root %d key %v: error %v, reference value %x", root, k, err, rs.st[k])
					}
					continue
				}
				so = append(so, L(I(0), B(blob)))
				if rs == nil {
					fail("state read at dropped root %d key %v returned data %x", root, k, blob)
				} else if string(blob) != string(rs.st[k]) {
					fail("state read at live root %d key %v: got %x, reference %x", root, k, blob, rs.st[k])
				}
				if len(blob) == 0 {
					tags["read-absent"] = true
				}
			}
			for _, kx := range AsList(ol[3]) {
				kl := AsList(kx)
				k := nkey{ai(kl[0]), string(AsBytes(kl[1]))}
				var (
					blob []byte
					want []byte
				)
				if rs != nil {
					want = rs.nd[k]
				}
				err := nerr
				if err == nil {
					blob, err = readNode(nr, k, want)
				}
				nread++
				if err != nil {
					no = append(no, L(I(1), I(errClass(err))))
					tags[fmt.Sprintf("readerr%d", errClass(err))] = true
					if rs != nil {
						fail("node read at live root %d key (%d,%x): error %v, reference value %x", root, k.owner, k.path, err, want)
					}
					continue
				}
				no = append(no, L(I(0), B(blob)))
				if rs == nil {
					fail("node read at dropped root %d key (%d,%x) returned data %x", root, k.owner, k.path, blob)
				} else if string(blob) != string(want) {
					fail("node read at live root %d key (%d,%x): got %x, reference %x", root, k.owner, k.path, blob, want)
				}
			}
			obs = append(obs, L(SL(so), SL(no)))
		case 4:
			obs = append(obs, L())
		default:
			panic("hxlib: unknown op kind")
		}
		if panicked {
			return finish() // the database is unusable after a panic (locks are left held)
		}
	}
	db.Close()
	return finish()
}

// ---- generator ---------------------------------------------------------------------

type gstate struct {
	r        *Rng
	ref      *refTree
	next     int64
	created  []int64 // every root ever used
	head     int64
	skeys    []skey
	nkeys    []nkey
	touchedS map[skey]bool
	touchedN map[nkey]bool
	ops      []Sx
}

func encS(k skey) Sx {
	if k.slot {
		return L(I(k.a), I(k.s))
	}
	return L(I(k.a))
}

func (g *gstate) value() []byte {
	if g.r.Chance(1, 4) {
		return nil // deletion
	}
	return g.r.Bytes(1 + g.r.Intn(6))
}

func (g *gstate) liveRoots() []int64 {
	var out []int64
	for r := range g.ref.live {
		out = append(out, r)
	}
	sort.Slice(out, func(i, j int) bool { return out[i] < out[j] })
	return out
}

func (g *gstate) ancestor(r int64, n int) (int64, bool) {
	for i := 0; i < n; i++ {
		if r == g.ref.base {
			return 0, false
		}
		r = g.ref.live[r].parent
	}
	return r, true
}

func (g *gstate) genUpdate(root, parent int64, empty bool) {
	st := map[skey][]byte{}
	nd := map[nkey][]byte{}
	if !empty {
		for i, n := 0, g.r.Intn(5); i < n; i++ {
			st[g.skeys[g.r.Intn(len(g.skeys))]] = g.value()
		}
		for i, n := 0, g.r.Intn(4); i < n; i++ {
			nd[g.nkeys[g.r.Intn(len(g.nkeys))]] = g.value()
		}
	}
	var ss, ns []Sx
	var sk []skey
	for k := range st {
		sk = append(sk, k)
	}
	sort.Slice(sk, func(i, j int) bool {
		a, b := sk[i], sk[j]
		if a.slot != b.slot {
			return !a.slot
		}
		if a.a != b.a {
			return a.a < b.a
		}
		return a.s < b.s
	})
	for _, k := range sk {
		g.touchedS[k] = true
		if k.slot {
			ss = append(ss, L(I(k.a), I(k.s), B(st[k])))
		} else {
			ss = append(ss, L(I(k.a), B(st[k])))
		}
	}
	var nk []nkey
	for k := range nd {
		nk = append(nk, k)
	}
	sort.Slice(nk, func(i, j int) bool {
		if nk[i].owner != nk[j].owner {
			return nk[i].owner < nk[j].owner
		}
		return nk[i].path < nk[j].path
	})
	for _, k := range nk {
		g.touchedN[k] = true
		ns = append(ns, L(I(k.owner), B([]byte(k.path)), B(nd[k])))
	}
	g.ops = append(g.ops, L(I(0), I(root), I(parent), SL(ss), SL(ns)))
	wasLive := g.ref.live[root] != nil
	if g.ref.update(root, parent, st, nd) == 0 && !wasLive && g.ref.live[root] != nil {
		g.head = root
	}
	if g.ref.live[g.head] == nil {
		lr := g.liveRoots()
		g.head = lr[len(lr)-1]
	}
}

func (g *gstate) genReads(extraDropped bool) {
	live := g.liveRoots()
	var roots []int64
	if len(live) <= 6 {
		roots = live
	} else {
		seen := map[int64]bool{}
		add := func(r int64) {
			if !seen[r] {
				seen[r] = true
				roots = append(roots, r)
			}
		}
		add(g.head)
		add(g.ref.base)
		for _, r := range live { // children of the base: the survivors of a flatten
			if g.ref.live[r].parent == g.ref.base && len(roots) < 5 {
				add(r)
			}
		}
		for len(roots) < 7 {
			add(live[g.r.Intn(len(live))])
		}
	}
	if extraDropped {
		var dropped []int64
		for _, r := range g.created {
			if g.ref.live[r] == nil {
				dropped = append(dropped, r)
			}
		}
		if len(dropped) > 0 {
			roots = append(roots, dropped[g.r.Intn(len(dropped))])
			roots = append(roots, dropped[len(dropped)-1])
		}
		if g.r.Chance(1, 4) {
			roots = append(roots, 9000+int64(g.r.Intn(50))) // never created
		}
	}
	var sk, nk []Sx
	for _, k := range g.skeys {
		if g.touchedS[k] || g.r.Chance(1, 8) {
			sk = append(sk, encS(k))
		}
	}
	for _, k := range g.nkeys {
		if g.touchedN[k] || g.r.Chance(1, 8) {
			nk = append(nk, L(I(k.owner), B([]byte(k.path))))
		}
	}
	for _, r := range roots {
		g.ops = append(g.ops, L(I(3), I(r), SL(sk), SL(nk)))
	}
}

func genCase(r *Rng, nops int, maxlayers int, limit int, adversarial bool, deep bool) Sx {
	g := &gstate{r: r, ref: newRef(maxlayers), next: 1, created: []int64{0}, touchedS: map[skey]bool{}, touchedN: map[nkey]bool{}}
	na, nsl := 2+r.Intn(4), 1+r.Intn(3)
	for a := 0; a < na; a++ {
		g.skeys = append(g.skeys, skey{false, int64(a), 0})
	}
	for i := 0; i < nsl*2; i++ {
		g.skeys = append(g.skeys, skey{true, int64(r.Intn(na)), int64(r.Intn(nsl + 1))})
	}
	paths := []string{"", "\x01", "\x01\x02", "\x0f", "\x03\x04\x05"}
	for i := 0; i < 2+r.Intn(4); i++ {
		o := int64(0)
		if r.Chance(1, 3) {
			o = int64(1 + r.Intn(na))
		}
		g.nkeys = append(g.nkeys, nkey{o, paths[r.Intn(len(paths))]})
	}
	cfg := L(I(int64(limit)), Bool(r.Chance(2, 3)), I(int64(maxlayers)), I(1), Bool(r.Bool()))
	g.ops = []Sx{cfg}
	fresh := func() int64 {
		id := g.next
		g.next++
		g.created = append(g.created, id)
		return id
	}
	for i := 0; i < nops; i++ {
		x := r.Intn(100)
		if deep && r.Chance(3, 4) {
			x = 0 // mostly extend the head: long chains
		}
		live := g.liveRoots()
		switch {
		case x < 45: // extend the head
			g.genUpdate(fresh(), g.head, r.Chance(1, 12))
		case x < 55: // fork at a random live root
			g.genUpdate(fresh(), live[r.Intn(len(live))], r.Chance(1, 12))
		case x < 70: // fork directly above the layer that the next flatten of the head chain removes
			m := maxlayers
			if m > 6 || m == 0 {
				m = 1 + r.Intn(3)
			}
			anc, ok := g.ancestor(g.head, m-1)
			if !ok {
				anc = g.ref.base
			}
			if r.Bool() {
				// a child of a child of the base
				for _, c := range live {
					if g.ref.live[c].parent == g.ref.base {
						anc = c
						break
					}
				}
			}
			g.genUpdate(fresh(), anc, false)
		case x < 82: // explicit cap
			root := g.head
			if r.Chance(1, 3) {
				root = live[r.Intn(len(live))]
			}
			n := 1 + r.Intn(3)
			if r.Chance(1, 5) {
				n = g.ref.live[root].depth - g.ref.live[g.ref.base].depth - r.Intn(2)
				if n < 0 {
					n = 0
				}
			}
			if adversarial && r.Chance(1, 4) {
				root = g.created[r.Intn(len(g.created))]
			}
			g.ops = append(g.ops, L(I(1), I(root), I(int64(n))))
			g.ref.cap(root, n)
		case x < 85: // commit
			root := g.head
			if r.Chance(1, 2) {
				root = live[r.Intn(len(live))]
			}
			g.ops = append(g.ops, L(I(2), I(root)))
			g.ref.cap(root, 0)
		case x < 88:
			g.ops = append(g.ops, L(I(4)))
		case x < 92: // rejected / skipped insertions
			switch r.Intn(4) {
			case 0: // cycle
				g.genUpdate(g.head, g.head, false)
			case 1: // duplicate live root with other content
				g.genUpdate(live[r.Intn(len(live))], g.head, false)
			case 2: // missing parent
				g.genUpdate(fresh(), 8000+int64(r.Intn(20)), false)
			case 3: // parent dropped earlier
				g.genUpdate(fresh(), g.created[r.Intn(len(g.created))], false)
			}
		default: // a dropped root appears again (repeated root)
			var dropped []int64
			for _, c := range g.created {
				if g.ref.live[c] == nil {
					dropped = append(dropped, c)
				}
			}
			if len(dropped) == 0 {
				g.genUpdate(fresh(), g.head, false)
			} else {
				g.genUpdate(dropped[r.Intn(len(dropped))], live[r.Intn(len(live))], false)
			}
		}
		if g.ref.live[g.head] == nil {
			lr := g.liveRoots()
			g.head = lr[len(lr)-1]
		}
		if nops <= 80 || r.Chance(1, 4) || i == nops-1 {
			g.genReads(true)
		}
	}
	return SL(g.ops)
}

func gen(r *Rng, tier string, emit func(Sx)) {
	ncases, maxOps := 400, 45
	if tier == "thorough" {
		ncases, maxOps = 4000, 60
	}
	limits := []int{0, 0, 40, 150, 1 << 20}
	layers := []int{1, 1, 2, 2, 3, 5, 128}
	for i := 0; i < ncases; i++ {
		cr := r.Fork()
		emit(genCase(cr, 6+cr.Intn(maxOps), layers[cr.Intn(len(layers))], limits[cr.Intn(len(limits))], i%7 == 6, false))
	}
	// long chains: depth up to 40 (quick) / 300 (thorough), flattened by Update's own cap
	deep := []int{40, 40, 40}
	if tier == "thorough" {
		deep = []int{300, 300, 200, 150, 150, 100}
	}
	for _, d := range deep {
		cr := r.Fork()
		emit(genCase(cr, d*5/4, []int{128, 128, 20, 7}[cr.Intn(4)], limits[cr.Intn(len(limits))], false, true))
	}
}

func main() {
	Main(Family{
		ID: "C16",
		Rule: "random histories over a pathdb.Database on a memory store: Update (extend head / fork at a random live root / fork directly above the layer the next flatten removes / empty transition / cycle / duplicate root / missing or dropped parent / re-appearing dropped root), layerTree.cap(root,n), Commit(root), flush marker; maxDiffLayers in {1,2,3,5,128,...}, WriteBufferSize in {0,40,150,1MiB}, NoAsyncFlush and clean caches on/off; values deleted with probability 1/4; few keys so that keys repeat. After every operation (every 4th in deep cases) all touched accounts, slots and trie nodes are read at every live root (at most 7 when many) and at dropped and never-created roots. Deep cases: chains of depth up to 40 (quick) / 300 (thorough). Non-trivial: at least one flatten into disk happened, >= 20 reads were evaluated and the history has >= 8 items; distinct = distinct case line.",
		Gen: gen,
		Run: run,
	})
}
