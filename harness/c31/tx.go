package main

// Transaction-level part of C31: random blocks of transactions through the real
// core.ApplyMessage (preCheck / buyGas / execute / settleGas / gas pool), Amsterdam rules or
// Prague rules, checked by the direct property oracle only (the settlement is hand-modelled
// in coq/Gas/SettleModel.v; its inputs are not observable from outside, so there is no
// observable to diff against the model: Obs is the empty list on both sides).
//
// case (2 fork blockLimit ((gasLimit target dataLen value) ...))
//   fork 0 = Prague/Osaka rules (legacy pool discipline), 1 = Amsterdam (EIP-8037)
//   target: 0 plain transfer to an EOA, 1 SSTORE set+clear (refund), 2 clears pre-set slots
//   (large refund counter), 3 infinite loop (out of gas), 4 SSTORE then REVERT,
//   5 calls target 1 then stores, 6 contract creation, 7 CREATE inside a call that reverts

import (
	"fmt"
	"math/big"

	. "gethverif/harness/hxlib"
	"github.com/ethereum/go-ethereum/common"
	"github.com/ethereum/go-ethereum/core"
	"github.com/ethereum/go-ethereum/core/state"
	"github.com/ethereum/go-ethereum/core/tracing"
	"github.com/ethereum/go-ethereum/core/types"
	"github.com/ethereum/go-ethereum/core/vm"
	"github.com/ethereum/go-ethereum/params"
	"github.com/holiman/uint256"
)

var (
	txSender   = common.HexToAddress("0x00000000000000000000000000000000000c3100")
	txCoinbase = common.HexToAddress("0x00000000000000000000000000000000000c31cb")
)

func txTarget(i int) common.Address {
	return common.BytesToAddress([]byte{0xc3, 0x1a, byte(i)})
}

// hand-assembled bytecode of the targets
var txCode = map[int][]byte{
	// PUSH1 1 PUSH1 1 SSTORE PUSH1 0 PUSH1 1 SSTORE STOP
	1: {0x60, 0x01, 0x60, 0x01, 0x55, 0x60, 0x00, 0x60, 0x01, 0x55, 0x00},
	// clear slots 1..4 (pre-set non-zero): PUSH1 0 PUSH1 k SSTORE ...
	2: {0x60, 0x00, 0x60, 0x01, 0x55, 0x60, 0x00, 0x60, 0x02, 0x55, 0x60, 0x00, 0x60, 0x03, 0x55, 0x60, 0x00, 0x60, 0x04, 0x55, 0x00},
	// JUMPDEST PUSH1 0 JUMP
	3: {0x5b, 0x60, 0x00, 0x56},
	// PUSH1 1 PUSH1 9 SSTORE PUSH1 0 PUSH1 0 REVERT
	4: {0x60, 0x01, 0x60, 0x09, 0x55, 0x60, 0x00, 0x60, 0x00, 0xfd},
	// CALL(gas, target1, 0,0,0,0,0) ; POP ; PUSH1 7 PUSH1 7 SSTORE ; STOP
	5: {0x60, 0x00, 0x60, 0x00, 0x60, 0x00, 0x60, 0x00, 0x60, 0x00, 0x62, 0xc3, 0x1a, 0x01, 0x5a, 0xf1, 0x50, 0x60, 0x07, 0x60, 0x07, 0x55, 0x00},
	// PUSH1 0 PUSH1 0 PUSH1 0 CREATE POP PUSH1 0 PUSH1 0 REVERT   (create an empty contract, then revert)
	7: {0x60, 0x00, 0x60, 0x00, 0x60, 0x00, 0xf0, 0x50, 0x60, 0x00, 0x60, 0x00, 0xfd},
}

// initcode of target 6: PUSH1 1 PUSH1 1 SSTORE PUSH1 0 PUSH1 0 RETURN (stores, deploys empty code)
var txInit = []byte{0x60, 0x01, 0x60, 0x01, 0x55, 0x60, 0x00, 0x60, 0x00, 0xf3}

func runTxs(l SL) Result {
	fork := AsInt(l[1])
	blockLimit := AsU64(l[2])
	txs := AsList(l[3])
	res := Result{Obs: L()}
	var fails []string
	fail := func(i int, format string, a ...interface{}) {
		if len(fails) < 4 {
			fails = append(fails, fmt.Sprintf("tx %d: ", i)+fmt.Sprintf(format, a...))
		}
	}
	tags := map[string]bool{fmt.Sprintf("tx-fork%d", fork): true}

	cfg := *params.MergedTestChainConfig
	if fork == 1 {
		cfg.AmsterdamTime = new(uint64)
	}
	sdb, err := state.New(types.EmptyRootHash, state.NewDatabaseForTesting())
	if err != nil {
		panic(err)
	}
	rich := new(uint256.Int).Lsh(uint256.NewInt(1), 100)
	sdb.SetBalance(txSender, rich, tracing.BalanceChangeUnspecified)
	for i, code := range txCode {
		sdb.SetCode(txTarget(i), code, tracing.CodeChangeUnspecified)
		sdb.SetNonce(txTarget(i), 1, tracing.NonceChangeUnspecified)
	}
	for k := 1; k <= 4; k++ {
		sdb.SetState(txTarget(2), common.BigToHash(big.NewInt(int64(k))), common.BigToHash(big.NewInt(5)))
	}
	rules := cfg.Rules(big.NewInt(1), true, 1)
	sdb.Finalise(rules)
	header := &types.Header{Number: big.NewInt(1), Time: 1, Difficulty: new(big.Int), GasLimit: blockLimit,
		BaseFee: big.NewInt(7), Coinbase: txCoinbase}
	bctx := core.NewEVMBlockContext(header, nil, &txCoinbase)
	evm := vm.NewEVM(bctx, sdb, &cfg, vm.Config{})
	gp := core.NewGasPool(blockLimit)
	price := uint256.NewInt(10)
	var sumUsed uint64
	applied := 0
	for i, t := range txs {
		tl := AsList(t)
		gasLimit, target, dataLen := AsU64(tl[0]), AsInt(tl[1]), AsInt(tl[2])
		value := uint256.NewInt(AsU64(tl[3]))
		data := make([]byte, dataLen)
		for j := range data {
			data[j] = byte(j*7 + 1) // non-zero calldata: makes the EIP-7623 floor bite
		}
		msg := &core.Message{From: txSender, Nonce: sdb.GetNonce(txSender), Value: value, GasLimit: gasLimit,
			GasPrice: price, GasFeeCap: price, GasTipCap: uint256.NewInt(1), Data: data}
		if target == 6 {
			msg.Data = append(append([]byte{}, txInit...), data...)
		} else {
			a := txTarget(target)
			msg.To = &a
		}
		sdb.Prepare(rules, msg.From, txCoinbase, msg.To, vm.ActivePrecompiles(rules), nil)
		balBefore := sdb.GetBalance(txSender).Clone()
		poolBefore := core.VerifGasPoolFields(gp)
		evm.SetTxContext(core.NewEVMTxContext(msg))
		snap := sdb.Snapshot()
		r, err := core.ApplyMessage(evm, msg, gp)
		if err != nil {
			// consensus-invalid transaction (does not fit, intrinsic gas too low, ...): nothing may change
			sdb.RevertToSnapshot(snap)
			if core.VerifGasPoolFields(gp) != poolBefore && fork == 1 {
				fail(i, "rejected transaction (%v) changed the Amsterdam gas pool %v -> %v", err, poolBefore, core.VerifGasPoolFields(gp))
			}
			if fork == 0 {
				gp = core.VerifNewGasPoolRaw(poolBefore) // the block builder restores the snapshot
			}
			tags["tx-rejected"] = true
			continue
		}
		sdb.Finalise(rules)
		applied++
		sumUsed += r.UsedGas
		tags[fmt.Sprintf("tx-target%d", target)] = true
		if r.Err != nil {
			tags["tx-vmerr"] = true
		}
		if r.UsedGas > gasLimit || r.MaxUsedGas > gasLimit {
			fail(i, "gas used %d (peak %d) exceeds the gas limit %d", r.UsedGas, r.MaxUsedGas, gasLimit)
		}
		if r.UsedGas > r.MaxUsedGas {
			fail(i, "gas used %d above the peak %d", r.UsedGas, r.MaxUsedGas)
		}
		if refund := r.MaxUsedGas - r.UsedGas; refund > r.MaxUsedGas/5 {
			fail(i, "refund %d exceeds one fifth of the pre-refund usage %d", refund, r.MaxUsedGas)
		} else if refund > 0 {
			tags["tx-refund"] = true
		}
		// the sender pays exactly gasUsed * price + value
		paid := new(uint256.Int).Sub(balBefore, sdb.GetBalance(txSender))
		want := new(uint256.Int).Mul(uint256.NewInt(r.UsedGas), price)
		if r.Err == nil {
			want.Add(want, value)
		}
		if target == 0 && r.Err == nil {
			// value moved to another account
		}
		if paid.Cmp(want) != 0 {
			fail(i, "sender paid %v, gas used %d * price 10 + value = %v", paid, r.UsedGas, want)
		}
		// block pool
		f := core.VerifGasPoolFields(gp)
		if gp.Used() > blockLimit || f[3] > blockLimit || f[4] > blockLimit {
			fail(i, "block gas used %d (exec %d, state %d) exceeds the block limit %d", gp.Used(), f[3], f[4], blockLimit)
		}
		if gp.CumulativeUsed() != sumUsed {
			fail(i, "cumulative receipt gas %d != sum of gas used %d", gp.CumulativeUsed(), sumUsed)
		}
		if fork == 0 && gp.Gas() != blockLimit-sumUsed {
			fail(i, "legacy pool: remaining %d != limit %d - used %d", gp.Gas(), blockLimit, sumUsed)
		}
		if fork == 1 {
			if f[3] < poolBefore[3] || f[4] < poolBefore[4] || f[0] != blockLimit-f[3] {
				fail(i, "Amsterdam pool counters moved backwards or remaining != limit - execution: %v -> %v", poolBefore, f)
			}
			if r.UsedGas > (f[3]-poolBefore[3])+(f[4]-poolBefore[4]) {
				fail(i, "receipt gas %d exceeds the two-dimensional charge (%d,%d)", r.UsedGas, f[3]-poolBefore[3], f[4]-poolBefore[4])
			}
			if f[4] > poolBefore[4] {
				tags["tx-state-gas"] = true
			}
		}
	}
	tags[fmt.Sprintf("tx-applied%d", min(applied, 5))] = true
	for t := range tags {
		res.Tags = append(res.Tags, t)
	}
	res.NonTrivial = applied >= 2
	if len(fails) > 0 {
		res.Oracle = fmt.Sprint(fails)
	}
	return res
}

func genTxs(r *Rng) Sx {
	fork := r.Intn(2)
	blockLimit := uint64(200_000 + r.Intn(3_000_000))
	if r.Chance(1, 4) {
		blockLimit = uint64(21000 + r.Intn(150_000))
	}
	var txs SL
	n := 1 + r.Intn(6)
	for i := 0; i < n; i++ {
		target := r.Intn(8)
		gasLimit := uint64(21000 + r.Intn(400_000))
		switch r.Intn(6) {
		case 0:
			gasLimit = uint64(20000 + r.Intn(40000)) // around the intrinsic cost
		case 1:
			gasLimit = uint64(1_000_000 + r.Intn(2_000_000))
		}
		dataLen := 0
		if r.Chance(1, 3) {
			dataLen = r.Intn(600)
		}
		value := uint64(0)
		if target == 0 || r.Chance(1, 5) {
			value = uint64(r.Intn(1000))
		}
		txs = append(txs, L(U(gasLimit), I(int64(target)), I(int64(dataLen)), U(value)))
	}
	return L(I(2), I(int64(fork)), U(blockLimit), txs)
}
