// Family c31: core/vm/gascosts.go (GasBudget) and core/gaspool.go (GasPool) vs the
// definitions GENERATED from them by tools/go2coq (coq/Gas/Budget_gen.v, Pool_gen.v),
// sequenced by coq/Gas/BudgetMachine.v and decoded by coq/Run/C31.v.
//
// Independently of the model, Run evaluates the property itself on the real structs
// (exact integer arithmetic in math/big): per-dimension and total conservation over the
// chain of active frames, no field above what the transaction was given, CanAfford <=>
// charge succeeds, failed charge leaves the budget untouched, reverted/halted frames hand
// back their initial reservoir, Used() of the outermost frame; for the pool: the
// cumulative counters never exceed the block limit and the error class is exactly
// "does not fit".
package main

import (
	"errors"
	"fmt"
	"math/big"

	. "gethverif/harness/hxlib"
	"github.com/ethereum/go-ethereum/core"
	"github.com/ethereum/go-ethereum/core/vm"
	"github.com/ethereum/go-ethereum/log"
)

func fields(g vm.GasBudget) []Sx {
	return []Sx{U(g.ExecutionGas), U(g.StateGas), U(g.UsedExecutionGas), I(g.UsedStateGas), U(g.Spilled)}
}

var errOther = errors.New("c31: some other halt")

func errOf(x int) error {
	switch x {
	case 0:
		return nil
	case 1:
		return vm.ErrExecutionReverted
	}
	return errOther
}

func exitDirect(g vm.GasBudget, x int) vm.GasBudget {
	switch x {
	case 0:
		return g.ExitSuccess()
	case 1:
		return g.ExitRevert()
	}
	return g.ExitHalt()
}

type susp struct {
	g vm.GasBudget
	f uint64
}

func bu(v uint64) *big.Int { return new(big.Int).SetUint64(v) }
func bi(v int64) *big.Int  { return big.NewInt(v) }

var two63 = new(big.Int).Lsh(big.NewInt(1), 63)

// outstanding net state gas of the whole transaction (running frame + suspended callers)
func outstanding(cur vm.GasBudget, stack []susp) *big.Int {
	s := bi(cur.UsedStateGas)
	for _, p := range stack {
		s.Add(s, bi(p.g.UsedStateGas))
	}
	return s
}

func runBudget(l SL) Result {
	iv := AsList(l[1])
	init := vm.GasBudget{ExecutionGas: AsU64(iv[0]), StateGas: AsU64(iv[1]), UsedExecutionGas: AsU64(iv[2]),
		UsedStateGas: AsBig(iv[3]).Int64(), Spilled: AsU64(iv[4])}
	ops := AsList(l[2])
	cur := init
	var stack []susp
	res := Result{}
	var fails []string
	fail := func(i int, format string, a ...interface{}) {
		if len(fails) < 4 {
			fails = append(fails, fmt.Sprintf("op %d: ", i)+fmt.Sprintf(format, a...))
		}
	}
	tags := map[string]bool{}

	// oracle state: the guarded part of the property is checked while every op so far was
	// applied within the callers' guard, from a fresh budget with E + S < 2^63
	E, S := bu(init.ExecutionGas), bu(init.StateGas)
	given := new(big.Int).Add(E, S)
	fresh := init.UsedExecutionGas == 0 && init.UsedStateGas == 0 && init.Spilled == 0
	on := fresh && given.Cmp(two63) < 0
	if fresh {
		tags["fresh"] = true
	}
	if given.Cmp(two63) >= 0 {
		tags["given>=2^63"] = true
	}
	resv := []uint64{init.StateGas} // reservoir each active frame started with, innermost last
	spilledSeen, chargedOK, maxDepth := false, false, 0

	var out SL
	for i, o := range ops {
		ol := AsList(o)
		tag := AsInt(ol[0])
		pre := cur
		var ret []Sx
		guard := true
		switch tag {
		case 0:
			cost := vm.GasCosts{ExecutionGas: AsU64(ol[1]), StateGas: AsU64(ol[2])}
			can := cur.CanAfford(cost)
			prior, ok := cur.Charge(cost)
			c2 := pre
			ok2 := c2.VerifCharge(cost)
			if ok2 != ok || c2 != cur {
				fail(i, "Charge and charge disagree")
			}
			if prior != pre {
				fail(i, "Charge did not return the prior budget")
			}
			if can != ok {
				fail(i, "CanAfford=%v but charge returned %v on %v cost %v", can, ok, pre, cost)
			}
			if !ok && cur != pre {
				fail(i, "failed charge modified the budget: %v -> %v", pre, cur)
			}
			chargedOK = chargedOK || (ok && (cost.ExecutionGas > 0 || cost.StateGas > 0))
			ret = append([]Sx{Bool(ok), Bool(can), U(cost.Sum())}, fields(prior)...)
			tags[fmt.Sprintf("charge-ok=%v", ok)] = true
		case 1:
			r := AsU64(ol[1])
			can := cur.CanAfford(vm.GasCosts{ExecutionGas: r})
			ok := cur.ChargeExecutionOnly(r)
			if can != ok {
				fail(i, "CanAfford=%v but ChargeExecutionOnly returned %v", can, ok)
			}
			if !ok && cur != pre {
				fail(i, "failed ChargeExecutionOnly modified the budget")
			}
			chargedOK = chargedOK || (ok && r > 0)
			ret = []Sx{Bool(ok)}
			tags["charge-exec-only"] = true
		case 2:
			r := AsU64(ol[1])
			can := cur.CanAfford(vm.GasCosts{ExecutionGas: r})
			prior, ok := cur.ChargeExecution(r)
			if can != ok || prior != pre || (!ok && cur != pre) {
				fail(i, "ChargeExecution: CanAfford=%v ok=%v prior/unchanged mismatch", can, ok)
			}
			chargedOK = chargedOK || (ok && r > 0)
			ret = append([]Sx{Bool(ok)}, fields(prior)...)
			tags["charge-execution"] = true
		case 3:
			s := AsU64(ol[1])
			can := cur.CanAfford(vm.GasCosts{StateGas: s})
			prior, ok := cur.ChargeState(s)
			if can != ok || prior != pre || (!ok && cur != pre) {
				fail(i, "ChargeState: CanAfford=%v ok=%v prior/unchanged mismatch", can, ok)
			}
			chargedOK = chargedOK || (ok && s > 0)
			ret = append([]Sx{Bool(ok)}, fields(prior)...)
			tags["charge-state"] = true
		case 4:
			s := AsU64(ol[1])
			guard = bu(s).Cmp(outstanding(cur, stack)) <= 0
			if pre.Spilled > 0 && s > 0 {
				tags["refund-repays-spill"] = true
			}
			cur.RefundState(s)
			tags["refund"] = true
		case 5:
			cur.DrainExecution()
			tags["drain"] = true
		case 6, 7:
			var child vm.GasBudget
			if tag == 6 {
				e := AsU64(ol[1])
				guard = e <= cur.ExecutionGas
				child = cur.Forward(e)
			} else {
				child = cur.ForwardAll()
			}
			ret = fields(cur)
			stack = append(stack, susp{cur, child.ExecutionGas})
			resv = append(resv, child.StateGas)
			if on && guard && (child.StateGas != pre.StateGas || child.UsedExecutionGas != 0 || child.UsedStateGas != 0 || child.Spilled != 0) {
				fail(i, "Forward: child %v is not a fresh budget holding the caller's reservoir %d", child, pre.StateGas)
			}
			cur = child
			tags["forward"] = true
		case 8:
			x := AsInt(ol[1])
			if len(stack) == 0 {
				guard = false
				break
			}
			left := cur.Exit(errOf(x))
			if left != exitDirect(cur, x) {
				fail(i, "Exit(err) dispatch differs from the direct exit constructor")
			}
			if on && x != 0 {
				if left.StateGas != resv[len(resv)-1] || left.UsedStateGas != 0 || left.Spilled != 0 || (x == 2 && left.ExecutionGas != 0) {
					fail(i, "exit kind %d of %v hands back %v, frame started with reservoir %d", x, cur, left, resv[len(resv)-1])
				}
			}
			p := stack[len(stack)-1]
			stack = stack[:len(stack)-1]
			resv = resv[:len(resv)-1]
			p.g.Absorb(left)
			cur = p.g
			ret = fields(left)
			tags[fmt.Sprintf("return-%d", x)] = true
		case 9:
			x := AsInt(ol[1])
			left := cur.Exit(errOf(x))
			if left != exitDirect(cur, x) {
				fail(i, "Exit(err) dispatch differs from the direct exit constructor")
			}
			if on && x != 0 {
				if left.StateGas != resv[len(resv)-1] || left.UsedStateGas != 0 || left.Spilled != 0 || (x == 2 && left.ExecutionGas != 0) {
					fail(i, "exit kind %d of %v gives %v, frame started with reservoir %d", x, cur, left, resv[len(resv)-1])
				}
			}
			cur = left
			tags[fmt.Sprintf("exit-self-%d", x)] = true
		default:
			panic("hxlib: unknown budget op")
		}
		if !guard {
			on = false
			tags["left-guard"] = true
		}
		if len(stack) > maxDepth {
			maxDepth = len(stack)
		}
		if cur.Spilled > 0 {
			spilledSeen = true
		}
		if on {
			// conservation, per dimension, over the chain of active frames
			ex := new(big.Int).Add(bu(cur.ExecutionGas), bu(cur.Spilled))
			ex.Add(ex, bu(cur.UsedExecutionGas))
			st := new(big.Int).Add(bu(cur.StateGas), bi(cur.UsedStateGas))
			st.Sub(st, bu(cur.Spilled))
			all := append([]susp{{cur, 0}}, stack...)
			for _, p := range stack {
				ex.Add(ex, bu(p.g.ExecutionGas)).Add(ex, bu(p.g.Spilled)).Add(ex, bu(p.g.UsedExecutionGas)).Sub(ex, bu(p.f))
				st.Add(st, bu(p.g.StateGas)).Add(st, bi(p.g.UsedStateGas)).Sub(st, bu(p.g.Spilled))
			}
			if ex.Cmp(E) != 0 {
				fail(i, "execution gas not conserved: remaining+spilled+used=%v, given %v (frames %v)", ex, E, all)
			}
			if st.Cmp(S) != 0 {
				fail(i, "state gas not conserved: reservoir+used-spilled=%v, given %v (frames %v)", st, S, all)
			}
			neg := new(big.Int).Neg(given)
			for _, p := range all {
				g := p.g
				for _, v := range []uint64{g.ExecutionGas, g.StateGas, g.UsedExecutionGas, g.Spilled} {
					if bu(v).Cmp(given) > 0 {
						fail(i, "field %d of %v exceeds the %v gas given", v, g, given)
					}
				}
				if bi(g.UsedStateGas).Cmp(given) > 0 || bi(g.UsedStateGas).Cmp(neg) < 0 {
					fail(i, "UsedStateGas of %v outside +-%v", g, given)
				}
			}
			if len(stack) == 0 {
				want := new(big.Int).Add(bu(cur.UsedExecutionGas), bi(cur.UsedStateGas))
				if bu(cur.Used(init)).Cmp(want) != 0 || cur.UsedStateGas < 0 {
					fail(i, "outermost frame: Used(initial)=%d, used counters give %v (UsedStateGas %d)", cur.Used(init), want, cur.UsedStateGas)
				}
			}
		}
		line := SL{Bool(guard)}
		line = append(line, fields(cur)...)
		line = append(line, I(int64(len(stack))), Bool(cur.IsZero()), U(cur.Used(init)))
		line = append(line, ret...)
		out = append(out, line)
	}
	res.Obs = out
	if on {
		tags["guarded-to-end"] = true
	}
	if spilledSeen {
		tags["spill"] = true
	}
	tags[fmt.Sprintf("maxdepth%d", min(maxDepth, 4))] = true
	tags[fmt.Sprintf("budget-ops%d", min(len(ops), 9))] = true
	for t := range tags {
		res.Tags = append(res.Tags, t)
	}
	res.NonTrivial = on && len(ops) >= 2 && (spilledSeen || (maxDepth >= 1 && chargedOK))
	if len(fails) > 0 {
		res.Oracle = fmt.Sprint(fails)
	}
	return res
}

func errClass(err error) int64 {
	switch {
	case err == nil:
		return 0
	case errors.Is(err, core.ErrGasLimitOverflow):
		return 1
	case errors.Is(err, core.ErrGasLimitReached):
		return 2
	}
	return 99
}

func pfields(gp *core.GasPool) []Sx {
	f := core.VerifGasPoolFields(gp)
	return []Sx{U(f[0]), U(f[1]), U(f[2]), U(f[3]), U(f[4])}
}

func rawPool(v Sx) [5]uint64 {
	l := AsList(v)
	return [5]uint64{AsU64(l[0]), AsU64(l[1]), AsU64(l[2]), AsU64(l[3]), AsU64(l[4])}
}

func runPool(l SL) Result {
	f0 := rawPool(l[1])
	gp := core.VerifNewGasPoolRaw(f0)
	ops := AsList(l[2])
	res := Result{}
	var fails []string
	fail := func(i int, format string, a ...interface{}) {
		if len(fails) < 4 {
			fails = append(fails, fmt.Sprintf("pool op %d: ", i)+fmt.Sprintf(format, a...))
		}
	}
	tags := map[string]bool{}
	// oracle: a pool created by NewGasPool(limit), limit < 2^63, driven in one of the two
	// disciplines the state transition uses
	fresh := f0[0] == f0[1] && f0[2] == 0 && f0[3] == 0 && f0[4] == 0 && f0[1] < 1<<63
	if fresh && *core.NewGasPool(f0[1]) != *gp {
		fail(-1, "NewGasPool(%d) is not {remaining, initial = limit}", f0[1])
	}
	ams, legacy := fresh, fresh
	limit := bu(f0[1])
	// exact reference counters
	cE, cS, cU, rem := new(big.Int), new(big.Int), new(big.Int), bu(f0[1])
	var bought *big.Int // legacy: gas bought by the pending CheckGasLegacy
	txs := 0
	var out SL
	for i, o := range ops {
		ol := AsList(o)
		tag := AsInt(ol[0])
		var ret []Sx
		if bought != nil && tag != 2 {
			legacy = false
		}
		switch tag {
		case 0:
			a := AsU64(ol[1])
			err := gp.CheckGasLegacy(a)
			ret = []Sx{I(errClass(err))}
			ams = false
			if legacy {
				fits := bu(a).Cmp(rem) <= 0
				if fits != (err == nil) || (err != nil && errClass(err) != 2) {
					fail(i, "CheckGasLegacy(%d) with %v remaining returned %v", a, rem, err)
				}
				if fits {
					rem.Sub(rem, bu(a))
					bought = bu(a)
				}
			}
			tags[fmt.Sprintf("check-legacy-%d", errClass(err))] = true
		case 1:
			a, b := AsU64(ol[1]), AsU64(ol[2])
			err := gp.CheckGasAmsterdam(a, b)
			ret = []Sx{I(errClass(err))}
			legacy = false
			if ams {
				fits := new(big.Int).Add(cE, bu(a)).Cmp(limit) <= 0 && new(big.Int).Add(cS, bu(b)).Cmp(limit) <= 0
				if fits != (err == nil) || (err != nil && errClass(err) != 2) {
					fail(i, "CheckGasAmsterdam(%d,%d) with cumulative (%v,%v) limit %v returned %v", a, b, cE, cS, limit, err)
				}
			}
			tags[fmt.Sprintf("check-ams-%d", errClass(err))] = true
		case 2:
			r, u := AsU64(ol[1]), AsU64(ol[2])
			err := gp.ChargeGasLegacy(r, u)
			ret = []Sx{I(errClass(err))}
			ams = false
			if legacy && (bought == nil || new(big.Int).Add(bu(r), bu(u)).Cmp(bought) != 0) {
				legacy = false
			}
			if legacy {
				if err != nil {
					fail(i, "ChargeGasLegacy(%d,%d) after buying %v returned %v", r, u, bought, err)
				}
				rem.Add(rem, bu(r))
				cU.Add(cU, bu(u))
				txs++
			}
			bought = nil
			tags[fmt.Sprintf("charge-legacy-%d", errClass(err))] = true
		case 3:
			e, s, u := AsU64(ol[1]), AsU64(ol[2]), AsU64(ol[3])
			err := gp.ChargeGasAmsterdam(e, s, u)
			ret = []Sx{I(errClass(err))}
			legacy = false
			if ams && (e >= 1<<63 || s >= 1<<63 || bu(u).Cmp(new(big.Int).Add(bu(e), bu(s))) > 0) {
				ams = false
			}
			if ams {
				ne, ns := new(big.Int).Add(cE, bu(e)), new(big.Int).Add(cS, bu(s))
				fits := ne.Cmp(limit) <= 0 && ns.Cmp(limit) <= 0
				if fits != (err == nil) || (err != nil && errClass(err) != 2) {
					fail(i, "ChargeGasAmsterdam(%d,%d,%d) with cumulative (%v,%v) limit %v returned %v", e, s, u, cE, cS, limit, err)
				}
				if fits {
					cE, cS = ne, ns
					cU.Add(cU, bu(u))
					rem.Sub(limit, cE)
					txs++
				}
			}
			tags[fmt.Sprintf("charge-ams-%d", errClass(err))] = true
		case 4:
			func() {
				defer func() {
					if recover() != nil {
						ret = []Sx{L()}
						if ams || legacy {
							fail(i, "Used() panicked on a disciplined pool")
						}
					}
				}()
				v := gp.Used()
				ret = []Sx{L(U(v))}
				if ams || legacy {
					want := cU // legacy: cumulative receipt gas = initial - remaining
					if !legacy {
						want = cE // Amsterdam: max of the two dimensions
						if cS.Cmp(cE) > 0 {
							want = cS
						}
					}
					if bu(v).Cmp(want) != 0 || bu(v).Cmp(limit) > 0 {
						fail(i, "Used()=%d, reference %v, limit %v", v, want, limit)
					}
				}
			}()
			tags["used"] = true
		case 5:
			s := gp.Snapshot()
			ret = pfields(s)
			if *s != *gp || s == gp {
				fail(i, "Snapshot is not an independent equal copy")
			}
			tags["snapshot"] = true
		case 6:
			o := core.VerifNewGasPoolRaw(rawPool(ol[1]))
			gp.Set(o)
			if *gp != *o {
				fail(i, "Set did not copy every field")
			}
			ams, legacy = false, false
			tags["set"] = true
		case 7:
			ret = []Sx{U(gp.Gas()), U(gp.CumulativeUsed()), U(gp.CumulativeExecution()), U(gp.CumulativeState())}
			f := core.VerifGasPoolFields(gp)
			if gp.Gas() != f[0] || gp.CumulativeUsed() != f[2] || gp.CumulativeExecution() != f[3] || gp.CumulativeState() != f[4] {
				fail(i, "getter does not return its field")
			}
		default:
			panic("hxlib: unknown pool op")
		}
		if (ams || legacy) && bought == nil {
			f := core.VerifGasPoolFields(gp)
			if bu(f[0]).Cmp(rem) != 0 || bu(f[1]).Cmp(limit) != 0 || bu(f[2]).Cmp(cU) != 0 || bu(f[3]).Cmp(cE) != 0 || bu(f[4]).Cmp(cS) != 0 {
				fail(i, "pool fields %v, exact reference (rem %v, limit %v, used %v, exec %v, state %v)", f, rem, limit, cU, cE, cS)
			}
			if bu(f[3]).Cmp(limit) > 0 || bu(f[4]).Cmp(limit) > 0 || bu(f[0]).Cmp(limit) > 0 {
				fail(i, "pool fields %v exceed the block limit %v", f, limit)
			}
		}
		line := SL(pfields(gp))
		line = append(line, ret...)
		out = append(out, line)
	}
	res.Obs = out
	if ams && fresh {
		tags["pool-ams-disciplined"] = true
	}
	if legacy && fresh {
		tags["pool-legacy-disciplined"] = true
	}
	tags[fmt.Sprintf("pool-ops%d", min(len(ops), 9))] = true
	for t := range tags {
		res.Tags = append(res.Tags, t)
	}
	res.NonTrivial = fresh && (ams || legacy) && txs >= 2
	if len(fails) > 0 {
		res.Oracle = fmt.Sprint(fails)
	}
	return res
}

func run(c Sx) Result {
	l := AsList(c)
	switch AsInt(l[0]) {
	case 0:
		return runBudget(l)
	case 1:
		return runPool(l)
	case 2:
		return runTxs(l)
	}
	panic("hxlib: unknown case kind")
}

// ------------------------------------------------------------------ generator

var boundary = []uint64{0, 1, 2, 1<<63 - 1, 1 << 63, 1<<63 + 1, 1<<64 - 2, 1<<64 - 1, 1 << 62, 1<<32 - 1, 1 << 32}

func pickBoundary(r *Rng) uint64 {
	if r.Chance(1, 4) {
		return r.U64()
	}
	v := boundary[r.Intn(len(boundary))]
	if r.Chance(1, 3) {
		v += uint64(r.Intn(5)) - 2
	}
	return v
}

// shadow of the machine used only to steer the generator towards guarded histories
type shadow struct {
	cur   vm.GasBudget
	stack []susp
}

func (s *shadow) apply(tag int, a, b uint64) {
	switch tag {
	case 0:
		s.cur.Charge(vm.GasCosts{ExecutionGas: a, StateGas: b})
	case 1:
		s.cur.ChargeExecutionOnly(a)
	case 2:
		s.cur.ChargeExecution(a)
	case 3:
		s.cur.ChargeState(a)
	case 4:
		s.cur.RefundState(a)
	case 5:
		s.cur.DrainExecution()
	case 6:
		ch := s.cur.Forward(a)
		s.stack = append(s.stack, susp{s.cur, a})
		s.cur = ch
	case 7:
		ch := s.cur.ForwardAll()
		s.stack = append(s.stack, susp{s.cur, ch.ExecutionGas})
		s.cur = ch
	case 8:
		if len(s.stack) > 0 {
			left := exitDirect(s.cur, int(a))
			p := s.stack[len(s.stack)-1]
			s.stack = s.stack[:len(s.stack)-1]
			p.g.Absorb(left)
			s.cur = p.g
		}
	case 9:
		s.cur = exitDirect(s.cur, int(a))
	}
}

func mkOp(tag int, a, b uint64) Sx {
	switch tag {
	case 0:
		return L(I(0), U(a), U(b))
	case 5, 7:
		return L(I(int64(tag)))
	case 8, 9:
		return L(I(int64(tag)), I(int64(a)))
	}
	return L(I(int64(tag)), U(a))
}

// genBudget: a history from a fresh budget (E, S); amounts are drawn by [amt] relative to
// what is currently available; with probability pOut an op deliberately leaves its guard.
func genBudget(r *Rng, E, S uint64, nops int, small bool, pOut int) Sx {
	sh := &shadow{cur: vm.NewGasBudget(E, S)}
	amt := func(avail uint64) uint64 {
		if small {
			return uint64(r.Intn(8))
		}
		switch r.Intn(6) {
		case 0:
			return 0
		case 1:
			return avail
		case 2:
			return avail + 1 + uint64(r.Intn(3))
		case 3:
			if avail > 0 && avail < ^uint64(0) {
				return r.U64() % (avail + 1)
			}
			return 0
		case 4:
			return uint64(r.Intn(50000))
		}
		if avail > 1 {
			return avail/2 + uint64(r.Intn(3))
		}
		return avail
	}
	var ops SL
	for len(ops) < nops {
		tag := r.Intn(10)
		var a, b uint64
		out := r.Intn(100) < pOut
		switch tag {
		case 0:
			a, b = amt(sh.cur.ExecutionGas), amt(sh.cur.StateGas+sh.cur.ExecutionGas/2)
			if r.Chance(1, 3) {
				a = 0
			}
		case 1, 2:
			a = amt(sh.cur.ExecutionGas)
		case 3:
			a = amt(sh.cur.StateGas)
			if r.Chance(1, 2) {
				a = amt(sh.cur.StateGas + sh.cur.ExecutionGas)
			}
		case 4:
			o := outstanding(sh.cur, sh.stack)
			if o.Sign() <= 0 || !o.IsUint64() {
				if !out {
					continue
				}
				a = 1 + uint64(r.Intn(3))
			} else {
				a = amt(o.Uint64())
				if !out && a > o.Uint64() {
					a = o.Uint64()
				}
			}
		case 5:
			if !r.Chance(1, 3) {
				continue
			}
		case 6:
			a = amt(sh.cur.ExecutionGas)
			if !out && a > sh.cur.ExecutionGas {
				a = sh.cur.ExecutionGas
			}
		case 7:
		case 8:
			if len(sh.stack) == 0 && !out {
				continue
			}
			a = uint64(r.Intn(3))
		case 9:
			if !r.Chance(1, 4) {
				continue
			}
			a = uint64(r.Intn(3))
		}
		ops = append(ops, mkOp(tag, a, b))
		sh.apply(tag, a, b)
	}
	// usually unwind the call stack so that the outermost frame is observed again
	if r.Chance(2, 3) {
		for len(sh.stack) > 0 {
			x := uint64(r.Intn(3))
			ops = append(ops, mkOp(8, x, 0))
			sh.apply(8, x, 0)
		}
	}
	return L(I(0), L(U(E), U(S), U(0), I(0), U(0)), ops)
}

func genBudgetRaw(r *Rng) Sx {
	init := L(U(pickBoundary(r)), U(pickBoundary(r)), U(pickBoundary(r)), I(int64(pickBoundary(r))), U(pickBoundary(r)))
	if r.Chance(1, 3) {
		init = L(U(pickBoundary(r)), U(pickBoundary(r)), U(0), I(0), U(0))
	}
	var ops SL
	n := 1 + r.Intn(6)
	for i := 0; i < n; i++ {
		tag := r.Intn(10)
		a, b := pickBoundary(r), pickBoundary(r)
		if r.Chance(1, 3) {
			a = uint64(r.Intn(4))
		}
		if tag >= 8 {
			a = uint64(r.Intn(3))
		}
		ops = append(ops, mkOp(tag, a, b))
	}
	return L(I(0), init, ops)
}

func genPool(r *Rng) Sx {
	mode := r.Intn(4)
	var limit uint64
	switch r.Intn(4) {
	case 0:
		limit = uint64(r.Intn(10))
	case 1:
		limit = 30_000_000 + uint64(r.Intn(1000))
	case 2:
		limit = 1<<63 - 1 - uint64(r.Intn(3))
	default:
		limit = r.U64() >> uint(1+r.Intn(40))
	}
	init := L(U(limit), U(limit), U(0), U(0), U(0))
	var ops SL
	n := 1 + r.Intn(7)
	small := func() uint64 {
		if limit < 16 {
			return uint64(r.Intn(int(limit) + 3))
		}
		switch r.Intn(4) {
		case 0:
			return r.U64() % (limit/4 + 1)
		case 1:
			return r.U64() % (limit + 1)
		case 2:
			return limit
		}
		return uint64(r.Intn(100000))
	}
	switch mode {
	case 0: // Amsterdam discipline
		for i := 0; i < n; i++ {
			er, sr := small(), small()
			ops = append(ops, L(I(1), U(er), U(sr)))
			te, ts := er, sr
			if te > 0 {
				te = r.U64() % (te + 1)
			}
			if ts > 0 {
				ts = r.U64() % (ts + 1)
			}
			if r.Chance(1, 8) { // actual above the reservation: may hit the limit
				te, ts = small(), small()
			}
			te, ts = min(te, 1<<63-1), min(ts, 1<<63-1)
			ru := te
			if ts > 0 && te+ts >= te {
				ru = te + r.U64()%(ts+1)
			}
			ops = append(ops, L(I(3), U(te), U(ts), U(ru)))
			if r.Chance(1, 3) {
				ops = append(ops, L(I(4)))
			}
			if r.Chance(1, 6) {
				ops = append(ops, L(I(7)))
			}
		}
	case 1: // legacy discipline
		for i := 0; i < n; i++ {
			lim := small()
			ops = append(ops, L(I(0), U(lim)))
			used := lim
			if used > 0 {
				used = r.U64() % (used + 1)
			}
			ops = append(ops, L(I(2), U(lim-used), U(used)))
			if r.Chance(1, 3) {
				ops = append(ops, L(I(4)))
			}
			if r.Chance(1, 6) {
				ops = append(ops, L(I(5)))
			}
		}
	default: // adversarial: raw fields, boundary amounts, every op
		if r.Chance(1, 2) {
			init = L(U(pickBoundary(r)), U(pickBoundary(r)), U(pickBoundary(r)), U(pickBoundary(r)), U(pickBoundary(r)))
		}
		for i := 0; i < n; i++ {
			a, b, c := pickBoundary(r), pickBoundary(r), pickBoundary(r)
			if r.Chance(1, 2) {
				a, b, c = small(), small(), small()
			}
			switch r.Intn(8) {
			case 0:
				ops = append(ops, L(I(0), U(a)))
			case 1:
				ops = append(ops, L(I(1), U(a), U(b)))
			case 2:
				ops = append(ops, L(I(2), U(a), U(b)))
			case 3:
				ops = append(ops, L(I(3), U(a), U(b), U(c)))
			case 4:
				ops = append(ops, L(I(4)))
			case 5:
				ops = append(ops, L(I(5)))
			case 6:
				ops = append(ops, L(I(6), L(U(pickBoundary(r)), U(pickBoundary(r)), U(a), U(b), U(c))))
			default:
				ops = append(ops, L(I(7)))
			}
		}
	}
	return L(I(1), init, ops)
}

func gen(r *Rng, tier string, emit func(Sx)) {
	scale := 1
	if tier == "thorough" {
		scale = 20
	}
	// small scope: budgets <= 6, amounts <= 7, at most 6 ops — the stream the search relies on
	for i := 0; i < 6000*scale; i++ {
		E, S := uint64(r.Intn(7)), uint64(r.Intn(7))
		pOut := 0
		if r.Chance(1, 10) {
			pOut = 30
		}
		emit(genBudget(r, E, S, 1+r.Intn(6), true, pOut))
	}
	// realistic magnitudes, longer histories
	for i := 0; i < 2500*scale; i++ {
		E := uint64(21000 + r.Intn(30_000_000))
		S := uint64(r.Intn(2_000_000))
		if r.Chance(1, 4) {
			S = 0
		}
		pOut := 0
		if r.Chance(1, 10) {
			pOut = 15
		}
		emit(genBudget(r, E, S, 2+r.Intn(25), false, pOut))
	}
	// guarded histories at the edge of the magnitude guard: E + S just below 2^63
	for i := 0; i < 800*scale; i++ {
		S := r.U64() >> uint(1+r.Intn(62))
		E := uint64(1<<63-1) - S - uint64(r.Intn(3))
		if r.Bool() {
			E, S = S, E
		}
		emit(genBudget(r, E, S, 1+r.Intn(10), false, 0))
	}
	// adversarial stream: raw (non-fresh) budgets, boundary values, wrap-around
	for i := 0; i < 1200*scale; i++ {
		emit(genBudgetRaw(r))
	}
	for i := 0; i < 2500*scale; i++ {
		emit(genPool(r))
	}
	// blocks of real transactions through core.ApplyMessage (oracle only)
	for i := 0; i < 1500*scale; i++ {
		emit(genTxs(r))
	}
}

func main() {
	log.SetDefault(log.NewLogger(log.DiscardHandler()))
	Main(Family{
		ID:   "C31",
		Rule: "budget histories (Charge/ChargeExecutionOnly/ChargeExecution/ChargeState/RefundState/DrainExecution/Forward/ForwardAll/Absorb(Exit(nil|revert|halt))/Exit at top) on the real vm.GasBudget: small scope (budgets <= 6, amounts <= 7, <= 6 ops), realistic magnitudes with up to 27 ops and nested calls, E+S just below 2^63, and an adversarial stream of raw non-fresh budgets with boundary values (2^63, 2^64-1) that wraps; gas-pool histories in the Amsterdam and legacy disciplines plus adversarial raw pools. Generator steered by a shadow run so most histories stay within the callers' guards (10% leave them on purpose). Non-trivial: a history of >= 2 ops from a fresh budget that stays within the guards and either spills state gas into execution gas or charges successfully inside/around a nested call; a disciplined pool history with >= 2 charged transactions; a block in which >= 2 transactions were applied. Third stream (oracle only, no model observable): blocks of 1-6 real transactions (plain transfer, SSTORE set+clear, clearing pre-set slots, infinite loop, SSTORE+REVERT, nested CALL, contract creation, CREATE inside a reverting call; gas limits around the intrinsic cost up to 3M; optional non-zero calldata for the EIP-7623 floor) through core.ApplyMessage with one shared GasPool under Prague and Amsterdam rules. distinct = distinct case line.",
		Gen:  gen,
		Run:  run,
	})
}
