package main

import (
	"github.com/ethereum/go-ethereum/core/txpool/blobpool"
)

// sameFields: two metas of the same tx carry the same eviction fields (all three dimensions).
func sameFields(a, b *blobpool.VerifMeta) bool {
	if (a.EvictionExecTip == nil) != (b.EvictionExecTip == nil) {
		return false
	}
	if a.EvictionExecTip != nil && !a.EvictionExecTip.Eq(b.EvictionExecTip) {
		return false
	}
	return a.EvictionExecFeeJumps == b.EvictionExecFeeJumps && a.EvictionBlobFeeJumps == b.EvictionBlobFeeJumps
}

// finalReopen closes the pool at the end of every history and reopens it from its store with
// the same tip: running pool == reopened pool (index, spent, eviction fields, limbo).
func (r *runner) finalReopen() {
	if r.deep || r.deepBefore || len(r.gapAcct) > 0 {
		return
	}
	pre := r.pool.VerifDump()
	r.pool.Close()
	if err := r.newPool(r.tip); err != nil {
		r.fail("reopen_reproduces: Init failed at the end of the history: %v", err)
		return
	}
	r.tags["final-reopen"] = true
	r.noteRestart(pre, false)
	d := r.pool.VerifDump()
	q, l := r.storeEntries(d, true)
	r.check(d, q, l, true)
}
