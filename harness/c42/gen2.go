package main

import (
	. "gethverif/harness/hxlib"
)

// Bottleneck histories: one account holds 3-6 txs whose minimum lies at a different position
// per dimension (tip / exec fee cap / blob fee cap); replacements hit every position (each
// replacement raises all three caps of that tx, as the pool demands, so it moves exactly the
// rolling minima the tx was the bottleneck of); other accounts sit between the old and the new
// minima; the pool then overflows so that the eviction order is observable; a clean restart may
// happen anywhere (the reopened pool recomputes every field from scratch).

func (g *gen) fixedTx(from int, nonce, tip, fee, bfee uint64) *txSpec {
	t := g.addTx(from, nonce, tip, fee, bfee, txGas*fee+blobGas*bfee+uint64(100+g.r.Intn(900)))
	t.shelf = 1
	return t
}

func (g *gen) bumped(old *txSpec, extra uint64) *txSpec {
	thr := func(x uint64) uint64 {
		v := x * (100 + g.bump) / 100
		if v <= x {
			v = x + 1
		}
		return v + extra
	}
	return g.fixedTx(int(old.from), old.nonce, thr(old.tip), thr(old.fee), thr(old.bfee))
}

func genBottleneck(r *Rng, tier string) Sx {
	g := &gen{r: r, cand: map[[2]uint64][]uint64{}, sent: map[uint64]bool{}, naccts: 3, tip: 1}
	g.bump = []uint64{10, 25, 100}[r.Intn(3)]
	rich := []uint64{1 << 50, 1 << 50, 1 << 50}
	// current fees: sometimes above most caps (negative priorities that differ), sometimes below
	base := []uint64{7, 25, 100, 1000000}[r.Intn(4)]
	blob := blobFeeOf(excessPalette[r.Intn(len(excessPalette))])
	first := &blockSpec{id: 0, parent: 0, num: baseNumber, nonces: []uint64{0, 0, 0}, bals: rich, base: base, blob: blob}
	g.blocks = append(g.blocks, first)
	g.nextBlk = 1
	g.head = first
	g.final = first.num

	main := r.Intn(3)
	n := 3 + r.Intn(4)
	// distinct bottleneck positions per dimension (as far as n allows)
	perm := []int{0, 1, 2}
	for i := 2; i > 0; i-- {
		j := r.Intn(i + 1)
		perm[i], perm[j] = perm[j], perm[i]
	}
	pos := [3]int{perm[0] % n, perm[1] % n, perm[2] % n}
	if n > 3 && r.Chance(1, 2) {
		pos[r.Intn(3)] = 3 + r.Intn(n-3)
	}
	pool := make([]*txSpec, 0, n)
	for i := 0; i < n; i++ {
		tip, fee, bfee := uint64(20+r.Intn(20)), uint64(120+r.Intn(200)), uint64(60+r.Intn(200))
		if i == pos[0] {
			tip = uint64(2 + r.Intn(6))
		}
		if i == pos[1] {
			fee = uint64(13 + r.Intn(30))
		}
		if i == pos[2] {
			bfee = uint64(2 + r.Intn(12))
		}
		if fee < tip {
			fee = tip
		}
		t := g.fixedTx(main, uint64(i), tip, fee, bfee)
		pool = append(pool, t)
		g.emitAdd(t)
	}
	others := []int{(main + 1) % 3, (main + 2) % 3}
	nonce := map[int]uint64{}
	between := func(a int) {
		// caps around the main account's minima, so that its old and new minima straddle them
		tip, fee, bfee := uint64(1+r.Intn(30)), uint64(10+r.Intn(200)), uint64(1+r.Intn(150))
		if fee < tip {
			fee = tip
		}
		g.emitAdd(g.fixedTx(a, nonce[a], tip, fee, bfee))
		nonce[a]++
	}
	between(others[0])
	if r.Chance(1, 2) {
		between(others[1])
	}
	units := uint64(n) + nonce[others[0]] + nonce[others[1]]
	// replacements at several positions (the bottlenecks first), interleaved with other traffic
	nrep := 1 + r.Intn(4)
	for k := 0; k < nrep; k++ {
		i := pos[k%3]
		if k >= 3 || r.Chance(1, 4) {
			i = r.Intn(n)
		}
		nt := g.bumped(pool[i], uint64(r.Intn(3))*uint64(r.Intn(40)))
		pool[i] = nt
		g.emitAdd(nt)
		switch r.Intn(6) {
		case 0:
			g.ops = append(g.ops, L(I(3), U(1))) // clean restart
		case 1:
			between(others[r.Intn(2)])
			units++
		case 2: // fee change without transactions: the heap is re-sorted
			b := &blockSpec{id: g.nextBlk, parent: g.head.id, num: g.head.num + 1, nonces: []uint64{0, 0, 0}, bals: rich,
				base: []uint64{7, 25, 100, 1000000}[r.Intn(4)], blob: blobFeeOf(excessPalette[r.Intn(len(excessPalette))])}
			g.nextBlk++
			g.blocks = append(g.blocks, b)
			g.head = b
			g.ops = append(g.ops, L(I(2), U(b.id), U(g.final)))
		}
	}
	// overflow: the cap leaves room for what is pooled plus one, then 2-4 more arrive
	g.datacap = (units+1)*141376 + uint64(r.Intn(1000))
	for k := 0; k < 2+r.Intn(3); k++ {
		if r.Chance(1, 3) {
			t := g.fixedTx(main, uint64(n), uint64(1+r.Intn(30)), uint64(30+r.Intn(300)), uint64(1+r.Intn(200)))
			n++
			g.emitAdd(t)
		} else {
			between(others[r.Intn(2)])
		}
	}
	if r.Chance(1, 2) {
		g.ops = append(g.ops, L(I(3), U(1)))
	}
	return g.caseSx(1)
}

// scripted3: the replaced tx is the blob-fee bottleneck only; the tail two positions later must
// pick up the new minimum, and the overflow must evict from the other account.
func scripted3() Sx {
	g := &gen{r: NewRng(3), cand: map[[2]uint64][]uint64{}, sent: map[uint64]bool{}, naccts: 2, bump: 100, tip: 1}
	rich := []uint64{1 << 50, 1 << 50}
	g.blocks = append(g.blocks, &blockSpec{id: 0, parent: 0, num: baseNumber, nonces: []uint64{0, 0}, bals: rich, base: 10, blob: blobFeeOf(30_000_000)})
	g.nextBlk = 1
	g.datacap = 4*141376 + 10
	t0 := g.fixedTx(0, 0, 10, 100, 7)
	g.emitAdd(t0)
	g.emitAdd(g.fixedTx(0, 1, 5, 50, 100))
	g.emitAdd(g.fixedTx(0, 2, 5, 50, 100))
	g.emitAdd(g.fixedTx(1, 0, 5, 50, 10))
	g.emitAdd(g.fixedTx(0, 0, 20, 200, 20)) // replaces t0: only the rolling blob-fee minimum moves
	g.emitAdd(g.fixedTx(1, 1, 5, 50, 10))  // overflow: account 1 (cap 10) is the worst, account 0's minimum is 20
	g.ops = append(g.ops, L(I(3), U(1)))
	return g.caseSx(1)
}
