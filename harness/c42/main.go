// Family c42: core/txpool/blobpool (BlobPool over real billy stores in a temp dir) vs coq/Pool/Blob.v.
//
// A case is an operation history over a fake chain:
//
//	( (datacap bump naccts tip0)
//	  (tx ...)     tx    = (id from nonce tip fee bfee cost shelf)
//	  (block ...)  block = (id parent num (btx...) (nonce...) (bal...) base blob); btx = (tid from isblob); first = initial head
//	  (tables)     ( prioE prioB closeE closeB nearE nearB )  -- the float arithmetic of priority.go as data (see coq/Run/C42.v)
//	  (op ...) )   op = (0 tid) Add | (1 tip) SetGasTip | (2 blockid final) Reset | (3 tip) Close+New+Init | (4 tip) abrupt stop
//
// After every op the white-box state is dumped through the verif export, canonicalised
// (hash -> tx id, accounts by index, float jumps -> the fee they are the jumps of) and the
// property is evaluated on it directly (oracle).
package main

import (
	"context"
	"crypto/ecdsa"
	"crypto/sha256"
	"errors"
	"fmt"
	"io"
	"log/slog"
	"math"
	"math/big"
	"os"
	"path/filepath"
	"runtime/pprof"
	"sort"
	"strings"
	"sync"

	"github.com/ethereum/go-ethereum/common"
	"github.com/ethereum/go-ethereum/consensus/misc/eip1559"
	"github.com/ethereum/go-ethereum/consensus/misc/eip4844"
	"github.com/ethereum/go-ethereum/core"
	"github.com/ethereum/go-ethereum/core/state"
	"github.com/ethereum/go-ethereum/core/tracing"
	"github.com/ethereum/go-ethereum/core/txpool"
	"github.com/ethereum/go-ethereum/core/txpool/blobpool"
	"github.com/ethereum/go-ethereum/core/types"
	"github.com/ethereum/go-ethereum/crypto"
	"github.com/ethereum/go-ethereum/crypto/kzg4844"
	"github.com/ethereum/go-ethereum/log"
	"github.com/ethereum/go-ethereum/params"
	"github.com/ethereum/go-ethereum/trie"
	. "gethverif/harness/hxlib"
	"github.com/holiman/uint256"
)

const (
	maxAccts   = 4
	baseNumber = 20_000_000 // above every block-numbered mainnet fork
	blobGas    = 131072
	txGas      = 21000
	slotUnit   = 137280 // blobSize + txBlobOverhead
	cutObs     = 99
	knownLimbo = "C42-limbo-stale-block: a reorg re-included a limboed tx at a higher block but the limbo keeps the old branch's block number, so the blobs are dropped before the including block is final"
	knownGap   = "C42-gap-after-stale-prefix: recheck tests the nonce gap against the state before it drops the stale prefix, so a list whose lowest nonce is below the state nonce but which lacks the state nonce itself keeps its dangling tail"
	knownStale ="C42-stale-evict-heap: the eviction heap is not a heap for evictHeap.Less (an account's rolling eviction tip changed without heap.Fix)"
)

var (
	keys  [maxAccts]*ecdsa.PrivateKey
	addrs [maxAccts]common.Address
	cfg   = params.MainnetChainConfig
)

func headTime(num uint64) uint64 { return *cfg.OsakaTime + 100 + (num-baseNumber)*12 }

// excess blob gas palette; the blob fee of a header is a function of it
var excessPalette = []uint64{0, 3_000_000, 6_000_000, 9_000_000, 9_010_000, 14_000_000, 20_000_000, 30_000_000}

func blobFeeOf(excess uint64) uint64 {
	e := excess
	h := &types.Header{Number: new(big.Int).SetUint64(baseNumber), Time: headTime(baseNumber), ExcessBlobGas: &e}
	return eip4844.CalcBlobFee(cfg, h).Uint64()
}

func init() {
	var ks []*ecdsa.PrivateKey
	for i := 0; i < maxAccts; i++ {
		b := make([]byte, 32)
		for j := range b {
			b[j] = byte(0x21*(i+1) + j)
		}
		k, err := crypto.ToECDSA(b)
		if err != nil {
			panic(err)
		}
		ks = append(ks, k)
	}
	sort.Slice(ks, func(i, j int) bool {
		return crypto.PubkeyToAddress(ks[i].PublicKey).Cmp(crypto.PubkeyToAddress(ks[j].PublicKey)) < 0
	})
	for i := range ks {
		keys[i] = ks[i]
		addrs[i] = crypto.PubkeyToAddress(ks[i].PublicKey)
	}
}

// ---------------------------------------------------------------- blob material (Run only)

type blobMat struct {
	blob   kzg4844.Blob
	commit kzg4844.Commitment
	proofs []kzg4844.Proof
	cells  []kzg4844.Cell
	vhash  common.Hash
}

var (
	matOnce sync.Once
	mats    []*blobMat
)

func materials() []*blobMat {
	matOnce.Do(func() {
		for i := 0; i < 2; i++ {
			m := &blobMat{}
			m.blob[1] = byte(i + 1)
			var err error
			if m.commit, err = kzg4844.BlobToCommitment(&m.blob); err != nil {
				panic(err)
			}
			if m.proofs, err = kzg4844.ComputeCellProofs(&m.blob); err != nil {
				panic(err)
			}
			if m.cells, err = kzg4844.ComputeCells([]kzg4844.Blob{m.blob}); err != nil {
				panic(err)
			}
			m.vhash = kzg4844.CalcBlobHashV1(sha256.New(), &m.commit)
			mats = append(mats, m)
		}
	})
	return mats
}

// ---------------------------------------------------------------- case shapes

type txSpec struct{ id, from, nonce, tip, fee, bfee, cost, shelf uint64 }
type btxSpec struct {
	tid, from uint64
	blob      bool
}
type blockSpec struct {
	id, parent, num uint64
	txs             []btxSpec
	nonces, bals    []uint64
	base, blob      uint64
}

func u(v Sx) uint64 {
	b := AsBig(v)
	if b.Sign() < 0 || !b.IsUint64() {
		panic("hxlib: number out of range")
	}
	return b.Uint64()
}
func ulist(v Sx) []uint64 {
	var out []uint64
	for _, x := range AsList(v) {
		out = append(out, u(x))
	}
	return out
}

// ---------------------------------------------------------------- fake chain

type fakeChain struct {
	blocks map[common.Hash]*types.Block
	specs  map[common.Hash]*blockSpec
	first  *types.Block
	final  uint64
	naccts int
}

func (c *fakeChain) Config() *params.ChainConfig { return cfg }
func (c *fakeChain) CurrentBlock() *types.Header  { return c.first.Header() }
func (c *fakeChain) CurrentFinalBlock() *types.Header {
	return &types.Header{Number: new(big.Int).SetUint64(c.final)}
}
func (c *fakeChain) GetBlock(hash common.Hash, number uint64) *types.Block { return c.blocks[hash] }
func (c *fakeChain) Genesis() *types.Block                                { return c.first }
func (c *fakeChain) StateAt(h *types.Header) (*state.StateDB, error) {
	spec := c.specs[h.Hash()]
	if spec == nil {
		return nil, errors.New("unknown header")
	}
	sdb, err := state.New(types.EmptyRootHash, stateDB())
	if err != nil {
		return nil, err
	}
	for i := 0; i < c.naccts; i++ {
		sdb.SetNonce(addrs[i], spec.nonces[i], tracing.NonceChangeUnspecified)
		sdb.SetBalance(addrs[i], uint256.NewInt(spec.bals[i]), tracing.BalanceChangeUnspecified)
	}
	return sdb, nil
}

var (
	sdbOnce sync.Once
	sdbVal  state.Database
)

func stateDB() state.Database {
	sdbOnce.Do(func() { sdbVal = state.NewDatabaseForTesting() })
	return sdbVal
}

type reserver struct {
	held   map[common.Address]bool
	faults []string
}

func (r *reserver) Hold(a common.Address) error {
	if r.held[a] {
		r.faults = append(r.faults, "double Hold")
	}
	r.held[a] = true
	return nil
}
func (r *reserver) Release(a common.Address) error {
	if !r.held[a] {
		r.faults = append(r.faults, "Release of unreserved account")
	}
	delete(r.held, a)
	return nil
}
func (r *reserver) Has(a common.Address) bool { return r.held[a] }

// log capture: which drop paths ran (the only window into Init's inner steps)
type logCounter struct {
	mu          sync.Mutex
	underpriced int // accounts hit by SetGasTip
	overflown   int // drop() calls
	errors      []string
}

func (l *logCounter) Enabled(context.Context, slog.Level) bool { return true }
func (l *logCounter) Handle(_ context.Context, r slog.Record) error {
	l.mu.Lock()
	defer l.mu.Unlock()
	switch {
	case strings.HasPrefix(r.Message, "Dropping underpriced blob transaction"):
		l.underpriced++
	case strings.HasPrefix(r.Message, "Evicting overflown blob transaction"):
		l.overflown++
	case r.Level >= slog.LevelError:
		l.errors = append(l.errors, r.Message)
	}
	return nil
}
func (l *logCounter) WithAttrs([]slog.Attr) slog.Handler { return l }
func (l *logCounter) WithGroup(string) slog.Handler      { return l }
func (l *logCounter) reset()                             { l.mu.Lock(); l.underpriced, l.overflown = 0, 0; l.mu.Unlock() }

var logs = &logCounter{}

func errClass(err error) int64 {
	switch {
	case err == nil:
		return 0
	case errors.Is(err, txpool.ErrTxGasPriceTooLow), errors.Is(err, txpool.ErrUnderpriced):
		return 1
	case errors.Is(err, core.ErrNonceTooLow):
		return 2
	case errors.Is(err, core.ErrNonceTooHigh):
		return 3
	case errors.Is(err, core.ErrInsufficientFunds):
		return 4
	case errors.Is(err, txpool.ErrAccountLimitExceeded):
		return 5
	case errors.Is(err, txpool.ErrReplaceUnderpriced):
		return 6
	case errors.Is(err, txpool.ErrAlreadyKnown):
		return 7
	}
	return 9
}

// ---------------------------------------------------------------- runner

type runner struct {
	naccts  int
	datacap uint64
	bump    uint64
	specs   map[uint64]*txSpec
	txs     map[uint64]*types.Transaction
	ptxs    map[uint64]*blobpool.BlobTxForPool
	idOf    map[common.Hash]uint64
	acctOf  map[common.Address]int
	bspec   map[uint64]*blockSpec
	hdrOf   map[uint64]*types.Header
	chain   *fakeChain
	pool    *blobpool.BlobPool
	res     *reserver
	dir     string
	head    *blockSpec
	tip     uint64
	nondet  bool
	deep    bool // a Reset skipped the reorg (depth > 64): chain-dependent clauses are off until the next Init
	feesE   []uint64
	feesB   []uint64
	bases   []uint64
	blobs   []uint64
	tags    map[string]bool
	oracle  []string
	limboAt map[uint64]uint64 // tid -> block it was included at when it entered the limbo (oracle)
	scratch string

	crashed    bool // an abrupt stop happened: resurrected entries may sit in pool and limbo at once
	strictHeap bool
	known      []string // occurrences of the open known finding (see fail)
	mayExceed  bool     // a Reset reinjected without the eviction loop: stored may be above Datacap
	gapAcct    map[int]bool // accounts whose dangling tail was explained by the C42-gap-after-stale-prefix mechanism
	snaps      int
	lastOp     bool
	deepBefore bool
}

// fail records an oracle failure.  The open known finding (stable prefix knownStale) is kept
// apart: it is reported only when it is the sole failure of the case, so that its entry in
// known_findings.json can never swallow a different failure of the same history.
func (r *runner) fail(format string, a ...interface{}) {
	msg := fmt.Sprintf(format, a...)
	if strings.HasPrefix(msg, knownStale) {
		if len(r.known) == 0 {
			r.known = append(r.known, msg)
		}
		return
	}
	for _, m := range r.oracle {
		if m == msg {
			return
		}
	}
	if len(r.oracle) < 6 {
		r.oracle = append(r.oracle, msg)
	}
}

func (r *runner) buildTx(sp *txSpec) {
	m := materials()[sp.id%2]
	base := new(big.Int).SetUint64(sp.fee)
	base.Mul(base, big.NewInt(txGas))
	bf := new(big.Int).SetUint64(sp.bfee)
	bf.Mul(bf, big.NewInt(blobGas))
	value := new(big.Int).SetUint64(sp.cost)
	value.Sub(value, base).Sub(value, bf)
	if value.Sign() < 0 || !value.IsUint64() {
		panic("hxlib: tx cost below its fee part")
	}
	if sp.fee < sp.tip || sp.bfee < 1 {
		panic("hxlib: tx fee cap below tip")
	}
	to := common.Address{0x42, byte(sp.id >> 8), byte(sp.id)}
	sidecar := types.NewBlobTxSidecar(types.BlobSidecarVersion1, []kzg4844.Blob{m.blob}, []kzg4844.Commitment{m.commit}, m.proofs)
	tx := types.MustSignNewTx(keys[sp.from], types.LatestSigner(cfg), &types.BlobTx{
		ChainID: uint256.MustFromBig(cfg.ChainID), Nonce: sp.nonce, GasTipCap: uint256.NewInt(sp.tip), GasFeeCap: uint256.NewInt(sp.fee),
		Gas: txGas, To: to, Value: uint256.MustFromBig(value), BlobFeeCap: uint256.NewInt(sp.bfee),
		BlobHashes: []common.Hash{m.vhash}, Sidecar: sidecar})
	if tx.Cost().Cmp(new(big.Int).SetUint64(sp.cost)) != 0 {
		panic("hxlib: tx cost attribute does not match Cost()")
	}
	var cs types.BlobTxCellSidecar
	switch sp.shelf {
	case 1: // partial custody: 8 cells
		idx := []uint64{0, 1, 2, 3, 4, 5, 6, 7}
		cs = types.BlobTxCellSidecar{Version: types.BlobSidecarVersion1, Commitments: []kzg4844.Commitment{m.commit}, Proofs: m.proofs,
			Cells: append([]kzg4844.Cell{}, m.cells[:8]...), Custody: types.NewCustodyBitmap(idx)}
	case 2: // full custody
		cs = types.BlobTxCellSidecar{Version: types.BlobSidecarVersion1, Commitments: []kzg4844.Commitment{m.commit}, Proofs: m.proofs,
			Cells: m.cells, Custody: types.CustodyBitmapAll}
	default:
		panic("hxlib: shelf must be 1 or 2")
	}
	r.txs[sp.id] = tx
	r.ptxs[sp.id] = &blobpool.BlobTxForPool{Tx: tx.WithoutBlobTxSidecar(), CellSidecar: &cs}
	r.idOf[tx.Hash()] = sp.id
	r.specs[sp.id] = sp
}

func (r *runner) newPool(tip uint64) error {
	r.res = &reserver{held: map[common.Address]bool{}}
	r.pool = blobpool.New(blobpool.Config{Datadir: r.dir, Datacap: r.datacap, PriceBump: r.bump}, r.chain, nil)
	return r.pool.Init(tip, r.hdrOf[r.head.id], r.res)
}

func copyDir(src, dst string) error {
	return filepath.Walk(src, func(path string, info os.FileInfo, err error) error {
		if err != nil {
			return err
		}
		rel, _ := filepath.Rel(src, path)
		target := filepath.Join(dst, rel)
		if info.IsDir() {
			return os.MkdirAll(target, 0700)
		}
		in, err := os.Open(path)
		if err != nil {
			return err
		}
		defer in.Close()
		out, err := os.Create(target)
		if err != nil {
			return err
		}
		defer out.Close()
		_, err = io.Copy(out, in)
		return err
	})
}

func inverse(vals []uint64, f func(*uint256.Int) float64, x float64) int64 {
	for _, v := range vals {
		if f(uint256.NewInt(v)) == x {
			return int64(v)
		}
	}
	return -1
}

func (r *runner) acct(a common.Address) int64 {
	if i, ok := r.acctOf[a]; ok {
		return int64(i)
	}
	return -1
}
func (r *runner) tid(h common.Hash) int64 {
	if i, ok := r.idOf[h]; ok {
		return int64(i)
	}
	return -1
}

type storeEnt struct {
	id    uint64
	size  uint32
	tid   int64
	block uint64
}

// storeEntries lists both stores.  full: billy's Iterate (allocates a buffer per shelf, slow);
// otherwise the ids named by the indices are read back one by one and the filled-slot
// counts bound what else could be stored (same listing whenever index and store agree).
func (r *runner) storeEntries(d *blobpool.VerifDump, full bool) (q, l []storeEnt) {
	if !full {
		for _, txs := range d.Index {
			for _, m := range txs {
				t := int64(-1)
				if h, ok := r.pool.VerifStoreGet(m.ID); ok {
					t = r.tid(h)
				}
				q = append(q, storeEnt{m.ID, m.StorageSize, t, 0})
			}
		}
		for _, id := range d.LimboIndex {
			t := int64(-1)
			h, blk, ok := r.pool.VerifLimboGet(id)
			if ok {
				t = r.tid(h)
			}
			l = append(l, storeEnt{id, 0, t, blk})
		}
		sort.Slice(q, func(i, j int) bool { return q[i].id < q[j].id })
		sort.Slice(l, func(i, j int) bool { return l[i].id < l[j].id })
		nq, nl := r.pool.VerifStoreCounts()
		if int(nq) != len(q) {
			r.fail("index_store_agree: store holds %d entries, index %d", nq, len(q))
		}
		if int(nl) != len(l) {
			r.fail("limbo store holds %d entries, limbo index %d", nl, len(l))
		}
		return
	}
	r.pool.VerifStoreIterate(func(id uint64, size uint32, h common.Hash, ok bool) {
		t := int64(-1)
		if ok {
			t = r.tid(h)
		}
		q = append(q, storeEnt{id, size, t, 0})
	})
	r.pool.VerifLimboIterate(func(id uint64, size uint32, h common.Hash, blk uint64, ok bool) {
		t := int64(-1)
		if ok {
			t = r.tid(h)
		}
		l = append(l, storeEnt{id, size, t, blk})
	})
	return
}

func (r *runner) sid(id uint64) Sx {
	if r.nondet {
		return I(0)
	}
	return U(id)
}

// dumpSx mirrors coq/Run/C42.v dump
func (r *runner) dumpSx(d *blobpool.VerifDump, q, l []storeEnt) Sx {
	var idx SL
	for a := 0; a < r.naccts; a++ {
		txs, ok := d.Index[addrs[a]]
		if !ok {
			continue
		}
		var ms SL
		for _, m := range txs {
			evtip := uint64(0)
			if m.EvictionExecTip != nil {
				evtip = m.EvictionExecTip.Uint64()
			}
			ms = append(ms, L(I(r.tid(m.Hash)), r.sid(m.ID), U(evtip),
				I(inverse(r.feesE, blobpool.VerifDynamicFeeJumps, m.EvictionExecFeeJumps)),
				I(inverse(r.feesB, blobpool.VerifDynamicBlobFeeJumps, m.EvictionBlobFeeJumps))))
		}
		spent := uint64(0)
		if s := d.Spent[addrs[a]]; s != nil {
			spent = s.Uint64()
		}
		idx = append(idx, L(I(int64(a)), U(spent), ms))
	}
	var heap SL
	for _, a := range d.HeapAddrs {
		heap = append(heap, I(r.acct(a)))
	}
	type pr struct {
		k int64
		v Sx
	}
	sorted := func(ps []pr) SL {
		sort.SliceStable(ps, func(i, j int) bool { return ps[i].k < ps[j].k })
		out := SL{}
		for _, p := range ps {
			out = append(out, p.v)
		}
		return out
	}
	var lk []pr
	for h, id := range d.Lookup {
		lk = append(lk, pr{r.tid(h), L(I(r.tid(h)), r.sid(id))})
	}
	var qs []pr
	for i, e := range q {
		k := int64(i)
		if r.nondet {
			k = e.tid
		}
		qs = append(qs, pr{k, L(r.sid(e.id), I(e.tid))})
	}
	var li []pr
	for h, id := range d.LimboIndex {
		li = append(li, pr{r.tid(h), L(I(r.tid(h)), r.sid(id))})
	}
	var lg []pr
	for blk, g := range d.LimboGroups {
		var ts []int64
		for _, h := range g {
			ts = append(ts, r.tid(h))
		}
		sort.Slice(ts, func(i, j int) bool { return ts[i] < ts[j] })
		var tl SL
		for _, t := range ts {
			tl = append(tl, I(t))
		}
		lg = append(lg, pr{int64(blk), L(U(blk), tl)})
	}
	var ls []pr
	for i, e := range l {
		k := int64(i)
		if r.nondet {
			k = e.tid
		}
		ls = append(ls, pr{k, L(r.sid(e.id), I(e.tid), U(e.block))})
	}
	var gp SL
	for a := 0; a < r.naccts; a++ {
		hs, ok := d.Gapped[addrs[a]]
		if !ok {
			continue
		}
		var ts SL
		for _, h := range hs {
			ts = append(ts, I(r.tid(h)))
		}
		gp = append(gp, L(I(int64(a)), ts))
	}
	var gs []pr
	for h := range d.GappedSource {
		gs = append(gs, pr{r.tid(h), I(r.tid(h))})
	}
	tip := I(-1)
	if d.GasTip != nil {
		tip = U(d.GasTip.Uint64())
	}
	return L(idx, U(d.Stored), heap,
		I(inverse(r.bases, blobpool.VerifDynamicFeeJumps, d.HeapBasefeeJumps)),
		I(inverse(r.blobs, blobpool.VerifDynamicBlobFeeJumps, d.HeapBlobfeeJumps)),
		sorted(lk), sorted(qs), sorted(li), sorted(lg), sorted(ls), gp, sorted(gs), tip)
}

// check evaluates the property directly on the implementation's state.
func (r *runner) check(d *blobpool.VerifDump, q, l []storeEnt, afterInit bool) {
	head := r.head
	// (1) contiguity from the state nonce, (2) affordability, (3) cap, tip floor, rolling minima
	indexIDs := map[uint64]int64{}
	var stored uint64
	for a, txs := range d.Index {
		ai := r.acct(a)
		if ai < 0 || len(txs) == 0 {
			r.fail("index holds unknown account or empty list")
			continue
		}
		if !r.res.held[a] {
			r.fail("indexed account %d not reserved", ai)
		}
		sum := new(uint256.Int)
		var (
			minTip           *uint256.Int
			minFee, minBlob float64
		)
		for i, m := range txs {
			if i > 0 && m.Nonce != txs[i-1].Nonce+1 && (r.deep || r.gapAcct[int(ai)]) {
				r.tags["deep-stale-gap"] = true // after a skipped (>64 deep) reorg the pool is never rechecked
			} else if i > 0 && m.Nonce != txs[i-1].Nonce+1 {
				r.fail("blob_contiguous: account %d nonces %d,%d not consecutive", ai, txs[i-1].Nonce, m.Nonce)
			}
			sum.Add(sum, m.CostCap)
			stored += uint64(m.StorageSize)
			if _, dup := indexIDs[m.ID]; dup {
				r.fail("store id %d indexed twice", m.ID)
			}
			indexIDs[m.ID] = r.tid(m.Hash)
			if id, ok := d.Lookup[m.Hash]; !ok || id != m.ID {
				r.fail("lookup does not map tx %d to its store id", r.tid(m.Hash))
			}
			if d.GasTip != nil && m.ExecTipCap.Lt(d.GasTip) {
				// reinjected and gapped-promoted txs are not filtered by the pool tip (not part of the property)
				r.tags["below-tip-pooled"] = true
			}
			// eviction fields == prefix minima recomputed from scratch over the account's list (all three dimensions)
			if i == 0 {
				minTip, minFee, minBlob = m.ExecTipCap, m.BasefeeJumps, m.BlobfeeJumps
			} else {
				if m.ExecTipCap.Lt(minTip) {
					minTip = m.ExecTipCap
				}
				minFee, minBlob = math.Min(minFee, m.BasefeeJumps), math.Min(minBlob, m.BlobfeeJumps)
			}
			switch {
			case m.EvictionExecTip == nil || !m.EvictionExecTip.Eq(minTip):
				r.fail("eviction tip of tx %d (account %d position %d) is not the minimum over the prefix", r.tid(m.Hash), ai, i)
			case m.EvictionExecFeeJumps != minFee:
				r.fail("eviction exec-fee jumps of tx %d (account %d position %d) are not the minimum over the prefix", r.tid(m.Hash), ai, i)
			case m.EvictionBlobFeeJumps != minBlob:
				r.fail("eviction blob-fee jumps of tx %d (account %d position %d) are not the minimum over the prefix", r.tid(m.Hash), ai, i)
			}
			if m.BasefeeJumps != blobpool.VerifDynamicFeeJumps(m.ExecFeeCap) || m.BlobfeeJumps != blobpool.VerifDynamicBlobFeeJumps(m.BlobFeeCap) {
				r.fail("jumps of tx %d not a function of its fee caps", r.tid(m.Hash))
			}
			if sp := r.specs[uint64(r.tid(m.Hash))]; sp != nil && uint64(m.StorageSize) != 4096+sp.shelf*slotUnit {
				r.fail("harness: storage size %d of tx %d does not match its shelf attribute", m.StorageSize, sp.id)
			}
		}
		if r.gapAcct[int(ai)] {
			if txs[0].Nonce == head.nonces[ai] {
				delete(r.gapAcct, int(ai))
			} else {
				r.fail("%s (account %d: first nonce %d, state nonce %d)", knownGap, ai, txs[0].Nonce, head.nonces[ai])
			}
		} else if !r.deep {
			if txs[0].Nonce != head.nonces[ai] {
				r.fail("blob_contiguous: account %d first nonce %d, state nonce %d", ai, txs[0].Nonce, head.nonces[ai])
			}
		}
		sp := d.Spent[a]
		if sp == nil || !sp.Eq(sum) {
			r.fail("spent of account %d is not the sum of its costs", ai)
		} else if !r.deep && !r.gapAcct[int(ai)] && sp.Cmp(uint256.NewInt(head.bals[ai])) > 0 {
			r.fail("blob_affordable: account %d spent %v > balance %d", ai, sp, head.bals[ai])
		}
		if len(txs) > blobpool.VerifMaxTxsPerAccount {
			r.fail("account %d holds %d > maxTxsPerAccount txs", ai, len(txs))
		}
	}
	for a := range d.Spent {
		if _, ok := d.Index[a]; !ok {
			r.fail("spent entry without index entry")
		}
	}
	for a := range r.res.held {
		if _, ok := d.Index[a]; !ok {
			r.fail("account %d reserved without index entry", r.acct(a))
		}
	}
	if len(r.res.faults) > 0 {
		r.fail("reserver misuse: %s", r.res.faults[0])
	}
	if len(d.Lookup) != len(indexIDs) {
		r.fail("lookup has %d entries, index %d", len(d.Lookup), len(indexIDs))
	}
	if d.Stored != stored {
		r.fail("stored %d is not the sum of storage sizes %d", d.Stored, stored)
	}
	// Datacap is enforced by Add and Init only: a Reset reinjects reorged-out txs without the
	// eviction loop, so the pool may sit above the cap until the next accepted Add or restart
	if d.Stored > r.datacap {
		if r.mayExceed {
			r.tags["over-cap-after-reinject"] = true
		} else {
			r.fail("stored %d above Datacap %d", d.Stored, r.datacap)
		}
	} else {
		r.mayExceed = false
	}
	// (4) index_store_agree: ids(index) = ids(store), each id holding the indexed tx
	if len(q) != len(indexIDs) {
		r.fail("index_store_agree: store holds %d entries, index %d", len(q), len(indexIDs))
	}
	for _, e := range q {
		if t, ok := indexIDs[e.id]; !ok || t != e.tid {
			r.fail("index_store_agree: store id %d holds tx %d, index says %d (present %v)", e.id, e.tid, t, ok)
		}
	}
	// limbo: index, groups and store describe the same entries
	if len(l) != len(d.LimboIndex) {
		r.fail("limbo store holds %d entries, limbo index %d", len(l), len(d.LimboIndex))
	}
	ng := 0
	for blk, g := range d.LimboGroups {
		for id, h := range g {
			ng++
			if d.LimboIndex[h] != id {
				r.fail("limbo group entry of block %d not in the limbo index", blk)
			}
		}
	}
	if ng != len(d.LimboIndex) {
		r.fail("limbo groups hold %d entries, limbo index %d", ng, len(d.LimboIndex))
	}
	for _, e := range l {
		if e.tid < 0 {
			r.fail("limbo store holds an unknown tx")
			continue
		}
		h := r.txs[uint64(e.tid)].Hash()
		if id, ok := d.LimboIndex[h]; !ok || id != e.id || d.LimboGroups[e.block][e.id] != h {
			r.fail("limbo store entry %d (tx %d, block %d) not indexed", e.id, e.tid, e.block)
		}
		if _, inPool := d.Lookup[h]; inPool && !afterInit && !r.crashed {
			r.fail("tx %d both pooled and in limbo", e.tid)
		}
	}
	// (5) heap: same accounts as the index, position map exact, heap order for Less
	if len(d.HeapAddrs) != len(d.Index) {
		r.fail("heap holds %d accounts, index %d", len(d.HeapAddrs), len(d.Index))
	}
	okHeap := true
	for i, a := range d.HeapAddrs {
		if _, ok := d.Index[a]; !ok {
			r.fail("heap holds an account without index entry")
			okHeap = false
		}
		if d.HeapIndex[a] != i {
			r.fail("heap position map wrong for account %d", r.acct(a))
		}
	}
	if okHeap && len(d.HeapAddrs) == len(d.Index) {
		prio := func(a common.Address) (int, *uint256.Int) {
			txs := d.Index[a]
			m := txs[len(txs)-1]
			return blobpool.VerifEvictionPriority(d.HeapBasefeeJumps, m.EvictionExecFeeJumps, d.HeapBlobfeeJumps, m.EvictionBlobFeeJumps), m.EvictionExecTip
		}
		for i := 1; i < len(d.HeapAddrs); i++ {
			par := (i - 1) / 2
			pc, tc := prio(d.HeapAddrs[i])
			pp, tp := prio(d.HeapAddrs[par])
			if pc < pp {
				r.fail("evict_order_matches_priority: heap child %d has a lower priority (%d) than its parent (%d)", i, pc, pp)
			} else if pc == pp && tc != nil && tp != nil && tc.Lt(tp) {
				r.tags["stale-tip-heap"] = true
				if r.strictHeap {
					r.fail("%s", knownStale)
				}
			}
		}
	}
	// gapped buffer bookkeeping
	n := 0
	for a, hs := range d.Gapped {
		if len(hs) == 0 {
			r.fail("empty gapped entry")
		}
		for _, h := range hs {
			if src, ok := d.GappedSource[h]; !ok || src != a {
				r.fail("gapped tx %d without source entry", r.tid(h))
			}
		}
		n += len(hs)
	}
	if n < len(d.GappedSource) {
		r.fail("gappedSource holds %d entries, buffer %d", len(d.GappedSource), n)
	}
}

func (r *runner) snapshot(afterInit bool) (Sx, *blobpool.VerifDump) {
	d := r.pool.VerifDump()
	r.snaps++
	q, l := r.storeEntries(d, afterInit || r.lastOp || r.snaps%6 == 0)
	r.check(d, q, l, afterInit)
	return r.dumpSx(d, q, l), d
}

// ancestors walks parent links the way blobpool.reorg does and returns the set of transactors
func (r *runner) transactors(old, nw *blockSpec) (int, bool) {
	diff := int64(old.num) - int64(nw.num)
	if diff < 0 {
		diff = -diff
	}
	if diff > 64 {
		return 0, true
	}
	set := map[uint64]bool{}
	rem, add := old, nw
	note := func(b *blockSpec) {
		for _, t := range b.txs {
			set[t.from] = true
		}
	}
	for rem.num > add.num {
		note(rem)
		rem = r.bspec[rem.parent]
	}
	for add.num > rem.num {
		note(add)
		add = r.bspec[add.parent]
	}
	for rem.id != add.id {
		note(rem)
		note(add)
		rem, add = r.bspec[rem.parent], r.bspec[add.parent]
	}
	return len(set), false
}

func belowTip(d *blobpool.VerifDump, tip uint64) int {
	n := 0
	for _, txs := range d.Index {
		for _, m := range txs {
			if m.ExecTipCap.Lt(uint256.NewInt(tip)) {
				n++
				break
			}
		}
	}
	return n
}

func run(c Sx) (res Result) {
	top := AsList(c)
	if len(top) != 5 {
		panic("hxlib: case must have 5 parts")
	}
	conf := ulist(top[0])
	if len(conf) != 4 {
		panic("hxlib: config must have 4 numbers")
	}
	r := &runner{datacap: conf[0], bump: conf[1], naccts: int(conf[2]), specs: map[uint64]*txSpec{}, txs: map[uint64]*types.Transaction{},
		ptxs: map[uint64]*blobpool.BlobTxForPool{}, idOf: map[common.Hash]uint64{}, acctOf: map[common.Address]int{},
		bspec: map[uint64]*blockSpec{}, hdrOf: map[uint64]*types.Header{}, tags: map[string]bool{}, limboAt: map[uint64]uint64{}, gapAcct: map[int]bool{}}
	r.strictHeap = os.Getenv("C42_STRICT_HEAP") != "0"
	if r.naccts < 1 || r.naccts > maxAccts || r.datacap < 1 || r.bump < 1 {
		panic("hxlib: bad config")
	}
	for i := 0; i < r.naccts; i++ {
		r.acctOf[addrs[i]] = i
	}
	seenE, seenB := map[uint64]bool{}, map[uint64]bool{}
	for _, s := range AsList(top[1]) {
		f := ulist(s)
		if len(f) != 8 {
			panic("hxlib: tx must have 8 fields")
		}
		sp := &txSpec{f[0], f[1], f[2], f[3], f[4], f[5], f[6], f[7]}
		if int(sp.from) >= r.naccts || sp.id > 0xffff || r.specs[sp.id] != nil {
			panic("hxlib: bad tx spec")
		}
		r.buildTx(sp)
		if !seenE[sp.fee] {
			seenE[sp.fee] = true
			r.feesE = append(r.feesE, sp.fee)
		}
		if !seenB[sp.bfee] {
			seenB[sp.bfee] = true
			r.feesB = append(r.feesB, sp.bfee)
		}
	}
	r.chain = &fakeChain{blocks: map[common.Hash]*types.Block{}, specs: map[common.Hash]*blockSpec{}, naccts: r.naccts}
	blockOf := map[uint64]*types.Block{}
	excessOf := map[uint64]uint64{}
	for _, e := range excessPalette {
		excessOf[blobFeeOf(e)] = e
	}
	signer := types.LatestSigner(cfg)
	for bi, s := range AsList(top[2]) {
		l := AsList(s)
		if len(l) != 8 {
			panic("hxlib: block must have 8 fields")
		}
		b := &blockSpec{id: u(l[0]), parent: u(l[1]), num: u(l[2]), nonces: ulist(l[4]), bals: ulist(l[5]), base: u(l[6]), blob: u(l[7])}
		for _, t := range AsList(l[3]) {
			f := ulist(t)
			if len(f) != 3 || int(f[1]) >= r.naccts {
				panic("hxlib: bad block tx")
			}
			b.txs = append(b.txs, btxSpec{f[0], f[1], f[2] != 0})
		}
		excess, ok := excessOf[b.blob]
		if len(b.nonces) != r.naccts || len(b.bals) != r.naccts || blockOf[b.id] != nil || !ok || b.num < baseNumber || b.base == 0 {
			panic("hxlib: bad block spec")
		}
		h := &types.Header{Number: new(big.Int).SetUint64(b.num), Difficulty: new(big.Int), GasLimit: 30_000_000, GasUsed: 15_000_000,
			BaseFee: new(big.Int).SetUint64(b.base), Time: headTime(baseNumber), ExcessBlobGas: &excess, Extra: []byte{byte(b.id >> 8), byte(b.id)}}
		if bi > 0 {
			p := blockOf[b.parent]
			if p == nil {
				panic("hxlib: block parent missing")
			}
			h.ParentHash = p.Hash()
		}
		if eip1559.CalcBaseFee(cfg, h).Uint64() != b.base || eip4844.CalcBlobFee(cfg, h).Uint64() != b.blob {
			panic("hxlib: header fees do not reproduce the block's base/blob fee")
		}
		var btxs types.Transactions
		for _, t := range b.txs {
			switch {
			case t.blob:
				tx := r.txs[t.tid]
				if tx == nil || r.specs[t.tid].from != t.from {
					panic("hxlib: block references unknown blob tx")
				}
				btxs = append(btxs, tx.WithoutBlobTxSidecar())
			default:
				if r.txs[t.tid] != nil {
					panic("hxlib: non-blob block tx reuses a blob tx id")
				}
				to := common.Address{0x43, byte(t.tid >> 8), byte(t.tid)}
				btxs = append(btxs, types.MustSignNewTx(keys[t.from], signer, &types.DynamicFeeTx{ChainID: cfg.ChainID, Nonce: 0,
					GasTipCap: big.NewInt(1), GasFeeCap: big.NewInt(1000), Gas: txGas, To: &to, Value: big.NewInt(1)}))
			}
		}
		blk := types.NewBlock(h, &types.Body{Transactions: btxs}, nil, trie.NewStackTrie(nil))
		blockOf[b.id] = blk
		r.chain.blocks[blk.Hash()] = blk
		r.chain.specs[blk.Hash()] = b
		r.hdrOf[b.id] = blk.Header()
		r.bspec[b.id] = b
		if bi == 0 {
			r.chain.first = blk
			r.head = b
		}
		r.bases = append(r.bases, b.base)
		r.blobs = append(r.blobs, b.blob)
	}
	if r.head == nil {
		panic("hxlib: no initial block")
	}
	ops := AsList(top[4])

	log.SetDefault(log.NewLogger(logs))
	root := os.TempDir()
	if st, err := os.Stat("/dev/shm"); err == nil && st.IsDir() {
		root = "/dev/shm"
	}
	scratch, err := os.MkdirTemp(root, "c42-")
	if err != nil {
		panic(err)
	}
	defer os.RemoveAll(scratch)
	r.scratch = scratch
	gen := 0
	r.dir = filepath.Join(scratch, fmt.Sprint("p", gen))
	r.tip = conf[3]
	if err := r.newPool(r.tip); err != nil {
		return Result{Obs: L(L(I(-3))), Oracle: "Init on an empty directory failed: " + err.Error()}
	}
	defer func() { r.pool.Close() }()

	var obs SL
	first, _ := r.snapshot(true)
	obs = append(obs, L(I(0), first))
	okAdds, resets := 0, 0
	cutCase := false

	for oi, o := range ops {
		r.lastOp = oi == len(ops)-1
		f := ulist(o)
		if len(f) < 2 {
			panic("hxlib: bad op")
		}
		cut := false
		var ec int64
		afterInit := false
		switch f[0] {
		case 0: // Add
			sp := r.specs[f[1]]
			if sp == nil {
				panic("hxlib: op references unknown tx")
			}
			pre := r.pool.VerifDump()
			err := r.pool.ValidateTxBasics(r.txs[sp.id])
			if err == nil {
				err = r.pool.AddPooledTx(r.ptxs[sp.id])
			}
			ec = errClass(err)
			r.tags[fmt.Sprint("add-err", ec)] = true
			if ec == 0 {
				okAdds++
				r.noteAdd(pre, sp)
			}
		case 1: // SetGasTip
			pre := r.pool.VerifDump()
			n := belowTip(pre, f[1])
			raised := pre.GasTip == nil || pre.GasTip.Lt(uint256.NewInt(f[1]))
			r.pool.SetGasTip(new(big.Int).SetUint64(f[1]))
			r.tip = f[1]
			if raised && n >= 2 {
				r.pool.VerifRebuildHeap()
				r.tags["tip-multi"] = true
			}
			if raised && n >= 1 {
				r.tags["tip-drop"] = true
			}
		case 2: // Reset
			if len(f) != 3 {
				panic("hxlib: bad reset op")
			}
			nb := r.bspec[f[1]]
			if nb == nil {
				panic("hxlib: reset to unknown block")
			}
			nt, deep := r.transactors(r.head, nb)
			pre := r.pool.VerifDump()
			r.chain.final = f[2]
			old := r.head
			r.head = nb
			r.pool.Reset(r.hdrOf[old.id], r.hdrOf[nb.id])
			r.mayExceed = true
			if nt >= 2 {
				r.pool.VerifRebuildHeap()
				r.nondet = true
				r.tags["reset-multi"] = true
			}
			if deep {
				r.deep = true
				r.tags["reset-deep"] = true
			}
			resets++
			r.noteReset(pre, old, nb, deep, f[2])
		case 3, 4: // restart
			crash := f[0] == 4
			if crash && r.nondet {
				cut = true
				break
			}
			pre := r.pool.VerifDump()
			gen++
			ndir := filepath.Join(scratch, fmt.Sprint("p", gen))
			if crash {
				if err := copyDir(r.dir, ndir); err != nil {
					panic(err)
				}
				r.pool.Close()
				r.tags["crash"] = true
			} else {
				r.pool.Close()
				if err := os.Rename(r.dir, ndir); err != nil {
					panic(err)
				}
				r.tags["restart"] = true
			}
			os.RemoveAll(r.dir)
			r.dir = ndir
			logs.reset()
			r.tip = f[1]
			if err := r.newPool(r.tip); err != nil {
				r.fail("Init failed after restart: %v", err)
				cut = true
				break
			}
			r.deep = false
			if crash {
				r.crashed = true
			}
			if logs.underpriced >= 2 {
				if logs.overflown >= 1 {
					cut = true
					break
				}
				r.pool.VerifRebuildHeap()
			}
			afterInit = true
			resets++
			r.noteRestart(pre, crash)
		default:
			panic("hxlib: unknown op")
		}
		if cut {
			cutCase = true
			r.tags["cut"] = true
			obs = append(obs, L(I(cutObs)))
			break
		}
		dsx, _ := r.snapshot(afterInit)
		obs = append(obs, L(I(ec), dsx))
	}
	if !cutCase {
		r.finalReopen()
	}
	res.Obs = obs
	switch {
	case len(r.oracle) > 0:
		res.Oracle = strings.Join(r.oracle, " | ")
		if len(r.known) > 0 {
			res.Oracle += " | (the case also shows the open evict-heap tie-break finding)"
		}
	case len(r.known) > 0:
		res.Oracle = r.known[0]
	}
	for t := range r.tags {
		res.Tags = append(res.Tags, t)
	}
	res.Tags = append(res.Tags, fmt.Sprint("ops", len(ops)/8*8))
	res.NonTrivial = okAdds >= 2 && resets >= 1
	return res
}

func main() {
	if pf := os.Getenv("C42_PROF"); pf != "" {
		f, _ := os.Create(pf)
		pprof.StartCPUProfile(f)
		defer pprof.StopCPUProfile()
	}
	Main(Family{
		ID: "C42",
		Rule: "random histories over a real BlobPool with billy stores in a temp dir and a fake chain (2-4 accounts, Datacap 3-8 slots): " +
			"adds (next nonce, replacements at the bump threshold -1/0/+1, gapped, stale, repeated, underpriced, overdrafting), SetGasTip, " +
			"Reset to children/siblings/ancestors including or excluding pooled txs (reinjection from the limbo), finality advances, " +
			"deep (>64) resets, clean restarts and abrupt stops (Init on a copy of the live directory); non-trivial = at least two accepted " +
			"adds and one Reset or restart",
		Gen: genAll,
		Run: run,
	})
}
