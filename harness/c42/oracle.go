package main

import (
	"github.com/ethereum/go-ethereum/common"
	"github.com/ethereum/go-ethereum/core/txpool/blobpool"
	"github.com/holiman/uint256"
)

// History-level clauses of the property, evaluated on the implementation only
// (independent of the Coq model): replacement bump, limbo_until_final, reopen_reproduces.

func (r *runner) tidsOf(d *blobpool.VerifDump) map[int][]uint64 {
	out := map[int][]uint64{}
	for a, txs := range d.Index {
		for _, m := range txs {
			out[int(r.acct(a))] = append(out[int(r.acct(a))], uint64(r.tid(m.Hash)))
		}
	}
	return out
}

func (r *runner) limboOf(d *blobpool.VerifDump) map[uint64]uint64 {
	out := map[uint64]uint64{}
	for blk, g := range d.LimboGroups {
		for _, h := range g {
			out[uint64(r.tid(h))] = blk
		}
	}
	return out
}

// noteAdd: an accepted tx that replaced a pooled one must have paid the configured bump.
func (r *runner) noteAdd(pre *blobpool.VerifDump, sp *txSpec) {
	post := r.pool.VerifDump()
	var now *blobpool.VerifMeta
	for i, m := range post.Index[addrs[sp.from]] {
		if uint64(r.tid(m.Hash)) == sp.id {
			now = &post.Index[addrs[sp.from]][i]
		}
	}
	if now == nil {
		if _, ok := post.GappedSource[r.txs[sp.id].Hash()]; ok {
			r.tags["gapped-buffered"] = true
		} else {
			r.tags["add-evicted-at-once"] = true
		}
		return
	}
	for _, m := range pre.Index[addrs[sp.from]] {
		if m.Nonce == sp.nonce && m.Hash != now.Hash {
			r.tags["replace"] = true
			mul := uint256.NewInt(100 + r.bump)
			h := uint256.NewInt(100)
			need := func(x *uint256.Int) *uint256.Int { return new(uint256.Int).Div(new(uint256.Int).Mul(mul, x), h) }
			if now.ExecFeeCap.Lt(need(m.ExecFeeCap)) || now.ExecTipCap.Lt(need(m.ExecTipCap)) || now.BlobFeeCap.Lt(need(m.BlobFeeCap)) ||
				!now.ExecFeeCap.Gt(m.ExecFeeCap) || !now.ExecTipCap.Gt(m.ExecTipCap) || !now.BlobFeeCap.Gt(m.BlobFeeCap) {
				r.fail("replacement of tx %d by %d below the price bump", r.tid(m.Hash), sp.id)
			}
		}
	}
	if len(pre.Gapped[addrs[sp.from]]) > len(post.Gapped[addrs[sp.from]]) {
		r.tags["gapped-promoted"] = true
	}
	var n0, n1 int
	for _, t := range pre.Index {
		n0 += len(t)
	}
	for _, t := range post.Index {
		n1 += len(t)
	}
	if n1 <= n0 && !r.tags["replace"] {
		r.tags["evict"] = true
	}
	if post.Stored+137280 > r.datacap {
		r.tags["near-cap"] = true
	}
}

// segments returns the discarded and included (tid -> block number) blob txs between two heads.
func (r *runner) segments(old, nw *blockSpec) (disc map[uint64]bool, incl map[uint64]uint64) {
	disc, incl = map[uint64]bool{}, map[uint64]uint64{}
	rem, add := old, nw
	d := func(b *blockSpec) {
		for _, t := range b.txs {
			if t.blob {
				disc[t.tid] = true
			}
		}
	}
	i := func(b *blockSpec) {
		for _, t := range b.txs {
			if t.blob {
				incl[t.tid] = b.num
			}
		}
	}
	for rem.num > add.num {
		d(rem)
		rem = r.bspec[rem.parent]
	}
	for add.num > rem.num {
		i(add)
		add = r.bspec[add.parent]
	}
	for rem.id != add.id {
		d(rem)
		i(add)
		rem, add = r.bspec[rem.parent], r.bspec[add.parent]
	}
	return
}

// noteReset: limbo_until_final.
func (r *runner) noteReset(pre *blobpool.VerifDump, old, nb *blockSpec, deep bool, final uint64) {
	post := r.pool.VerifDump()
	preL, postL := r.limboOf(pre), r.limboOf(post)
	disc, incl := map[uint64]bool{}, map[uint64]uint64{}
	if !deep {
		disc, incl = r.segments(old, nb)
	}
	// (i) what was in the limbo and is not finalised stays, unless it was reorged out (then it is reinjected)
	for tid, blk := range preL {
		_, reincluded := incl[tid]
		lost := disc[tid] && !reincluded
		nblk, still := postL[tid]
		switch {
		case lost:
			if still {
				r.fail("limbo: reorged-out tx %d was not pulled from the limbo", tid)
			} else {
				r.tags["limbo-reinject"] = true
			}
		case reincluded:
			want := incl[tid]
			r.tags["limbo-update"] = true
			if disc[tid] && blk != want && (!still || nblk == blk) {
				// reorg(): limbo.update is only called for TxDifference(included, discarded), so a tx that
				// is in both segments keeps the block number of the old branch
				if blk < want && want > final {
					r.fail("%s (tx %d: recorded block %d, included at %d, final %d, still in limbo: %v)", knownLimbo, tid, blk, want, final, still)
				} else {
					r.tags["limbo-block-stale-harmless"] = true
				}
				break
			}
			if want > final && (!still || nblk != want) {
				r.fail("limbo_until_final: re-included tx %d should be in limbo at block %d (present %v at %d)", tid, want, still, nblk)
			}
		case blk > final:
			if !still || nblk != blk {
				r.fail("limbo_until_final: tx %d included at %d (final %d) left the limbo", tid, blk, final)
			}
		default:
			if still {
				r.fail("limbo: tx %d of finalised block %d (final %d) kept", tid, blk, final)
			}
			r.tags["limbo-finalised"] = true
		}
	}
	// (ii) pooled txs included by the new segment move to the limbo until finality
	if !r.crashed && !r.deepBefore {
		for _, txs := range pre.Index {
			for _, m := range txs {
				tid := uint64(r.tid(m.Hash))
				n, ok := incl[tid]
				if !ok {
					continue
				}
				r.tags["included-from-pool"] = true
				blk, in := postL[tid]
				if n > final && (!in || blk != n) {
					r.fail("limbo_until_final: pooled tx %d included at %d (final %d) is not in the limbo (present %v at %d)", tid, n, final, in, blk)
				}
				if _, pooled := post.Lookup[m.Hash]; pooled {
					r.fail("included tx %d still pooled", tid)
				}
			}
		}
	}
	if deep {
		r.deepBefore = true
	}
	// C42-gap-after-stale-prefix: what recheck saw for a transactor (pooled + reinjected from the limbo) had a
	// nonce below the new state nonce, none equal to it, and the survivors all lie above it
	if !deep {
		for a := 0; a < r.naccts; a++ {
			have := post.Index[addrs[a]]
			next := nb.nonces[a]
			if len(have) == 0 || have[0].Nonce <= next {
				continue
			}
			below, at := false, false
			see := func(n uint64) {
				below = below || n < next
				at = at || n == next
			}
			for _, m := range pre.Index[addrs[a]] {
				see(m.Nonce)
			}
			for tid := range disc {
				if _, re := incl[tid]; re {
					continue
				}
				if sp := r.specs[tid]; sp != nil && int(sp.from) == a {
					if _, ok := preL[tid]; ok {
						see(sp.nonce)
					}
				}
			}
			if below && !at {
				r.gapAcct[a] = true
			}
		}
	}
	if len(post.Index) > 0 && len(pre.Index) > 0 && (len(disc) > 0 || len(incl) > 0) {
		r.tags["reorg-with-pool"] = true
	}
	if len(disc) > 0 {
		r.tags["reorg-discards"] = true
	}
}

// noteRestart: reopen_reproduces (clean shutdown); limbo content survives.
func (r *runner) noteRestart(pre *blobpool.VerifDump, crash bool) {
	post := r.pool.VerifDump()
	wasDeep := r.deepBefore
	r.deepBefore = false
	if crash {
		// every index entry after an abrupt stop must be one that was on disk; the state
		// invariants are checked by check(); resurrection is allowed (billy does not journal deletes)
		return
	}
	if wasDeep {
		return
	}
	if pre.Stored > r.datacap {
		// a Reset left the pool above the cap (reinjection has no eviction loop): Init evicts
		r.tags["reopen-after-overcap"] = true
		return
	}
	preL, postL := r.limboOf(pre), r.limboOf(post)
	if len(preL) != len(postL) {
		r.fail("reopen_reproduces: limbo holds %d txs after a clean restart, %d before", len(postL), len(preL))
	}
	for tid, blk := range preL {
		if postL[tid] != blk {
			r.fail("reopen_reproduces: limbo entry of tx %d changed across a clean restart", tid)
		}
	}
	tip := uint256.NewInt(r.tip)
	for a := 0; a < r.naccts; a++ {
		var want []common.Hash
		for _, m := range pre.Index[addrs[a]] {
			if m.ExecTipCap.Lt(tip) {
				break
			}
			want = append(want, m.Hash)
		}
		have := post.Index[addrs[a]]
		if len(have) != len(want) {
			r.fail("reopen_reproduces: account %d holds %d txs after a clean restart, expected %d", a, len(have), len(want))
			continue
		}
		for i := range want {
			if have[i].Hash != want[i] {
				r.fail("reopen_reproduces: account %d position %d differs after a clean restart", a, i)
			} else if !sameFields(&pre.Index[addrs[a]][i], &have[i]) {
				r.fail("reopen_reproduces: eviction fields of account %d position %d (tx %d) differ between the running and the reopened pool", a, i, r.tid(want[i]))
			}
		}
		if len(want) > 0 && len(want) == len(pre.Index[addrs[a]]) {
			if s0, s1 := pre.Spent[addrs[a]], post.Spent[addrs[a]]; s0 == nil || s1 == nil || !s0.Eq(s1) {
				r.fail("reopen_reproduces: spent of account %d differs after a clean restart", a)
			}
		}
	}
}
