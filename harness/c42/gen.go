package main

import (
	"math"
	"os"
	"sort"

	"github.com/ethereum/go-ethereum/core/txpool/blobpool"
	. "gethverif/harness/hxlib"
	"github.com/holiman/uint256"
)

// ---------------------------------------------------------------- generator

var (
	tipPalette  = []uint64{1, 2, 3, 5, 8, 13}
	feePalette  = []uint64{13, 15, 22, 40, 100, 101, 1000000, 1000050}
	bfeePalette = []uint64{1, 2, 3, 7, 20, 100, 1000000, 1000050}
	basePalette = []uint64{7, 10, 25, 100, 1000000, 1001000}
)

type gen struct {
	r       *Rng
	naccts  int
	bump    uint64
	datacap uint64
	tip     uint64
	sparse  bool // the block being built mostly leaves accounts out (a reorg to it loses txs)
	multi   bool // blocks may carry several accounts (then no abrupt stops are generated)
	chainAc int  // the only account that appears in blocks when !multi
	txs     []*txSpec
	blocks  []*blockSpec
	ops     SL
	head    *blockSpec
	final   uint64
	cand    map[[2]uint64][]uint64 // (account, nonce) -> tx ids generated for it
	sent    map[uint64]bool
	pool    [maxAccts][]*txSpec // believed pooled txs per account, by nonce
	nextID  uint64
	nextBlk uint64
}

func (g *gen) cost(fee, bfee uint64) uint64 { return txGas*fee + blobGas*bfee + uint64(100+g.r.Intn(900)) }

func (g *gen) addTx(from int, nonce, tip, fee, bfee, cost uint64) *txSpec {
	if fee < tip {
		fee = tip
	}
	min := txGas*fee + blobGas*bfee
	if cost < min {
		cost = min
	}
	t := &txSpec{id: g.nextID, from: uint64(from), nonce: nonce, tip: tip, fee: fee, bfee: bfee, cost: cost, shelf: uint64(1 + g.r.Intn(2))}
	g.nextID++
	g.txs = append(g.txs, t)
	k := [2]uint64{uint64(from), nonce}
	g.cand[k] = append(g.cand[k], t.id)
	return t
}

func (g *gen) freshTx(from int, nonce uint64) *txSpec {
	// accounts 0/1 use small fees, the last account the large (close-pair) ones now and then
	pick := func(p []uint64) uint64 {
		n := len(p) - 2
		if from == g.naccts-1 && g.r.Chance(1, 3) {
			return p[n+g.r.Intn(2)]
		}
		return p[g.r.Intn(n)]
	}
	fee, bfee := pick(feePalette), pick(bfeePalette)
	tip := tipPalette[g.r.Intn(len(tipPalette))]
	return g.addTx(from, nonce, tip, fee, bfee, g.cost(fee, bfee))
}

func (g *gen) byID(id uint64) *txSpec { return g.txs[id] }

func (g *gen) replacement(old *txSpec) *txSpec {
	thr := func(x uint64) uint64 { return x * (100 + g.bump) / 100 }
	up := func(x uint64) uint64 {
		v := thr(x)
		if v <= x {
			v = x + 1
		}
		return v + uint64(g.r.Intn(3))
	}
	tip, fee, bfee := up(old.tip), up(old.fee), up(old.bfee)
	switch g.r.Intn(7) { // one dimension exactly at / one below the threshold
	case 0:
		tip = thr(old.tip) - 1
	case 1:
		fee = thr(old.fee) - 1
	case 2:
		bfee = thr(old.bfee) - 1
	case 3:
		tip = thr(old.tip)
	case 4:
		fee = thr(old.fee)
	case 5:
		bfee = thr(old.bfee)
	}
	if tip == 0 {
		tip = 1
	}
	if bfee == 0 {
		bfee = 1
	}
	c := g.cost(fee, bfee)
	if g.r.Chance(1, 4) && c > old.cost { // cheaper in total than the replaced one is impossible; sometimes much dearer
		c += old.cost
	}
	return g.addTx(int(old.from), old.nonce, tip, fee, bfee, c)
}

func (g *gen) emitAdd(t *txSpec) {
	g.ops = append(g.ops, L(I(0), U(t.id)))
	g.sent[t.id] = true
}

func (g *gen) spentGuess(a int) uint64 {
	var s uint64
	for _, t := range g.pool[a] {
		s += t.cost
	}
	return s
}

func (g *gen) opAdd() {
	a := g.r.Intn(g.naccts)
	state := g.head.nonces[a]
	next := state + uint64(len(g.pool[a]))
	switch k := g.r.Intn(20); {
	case k < 11: // extend
		t := g.freshTx(a, next)
		if bal := g.head.bals[a]; g.r.Chance(9, 10) && bal > g.spentGuess(a) && t.cost > bal-g.spentGuess(a) {
			// mostly affordable: fall back to the cheapest fees
			t.fee, t.bfee = feePalette[0], bfeePalette[0]
			t.cost = g.cost(t.fee, t.bfee)
		}
		if g.r.Chance(9, 10) && t.tip < g.tip {
			t.tip = g.tip
		}
		g.emitAdd(t)
		if t.tip >= g.tip && g.spentGuess(a)+t.cost <= g.head.bals[a] && len(g.pool[a]) < 16 {
			g.pool[a] = append(g.pool[a], t)
		}
	case k < 15 && len(g.pool[a]) > 0: // replace
		i := g.r.Intn(len(g.pool[a]))
		t := g.replacement(g.pool[a][i])
		g.emitAdd(t)
		old := g.pool[a][i]
		thr := func(x uint64) uint64 { return x * (100 + g.bump) / 100 }
		if t.tip >= g.tip && t.tip > old.tip && t.fee > old.fee && t.bfee > old.bfee && t.tip >= thr(old.tip) && t.fee >= thr(old.fee) &&
			t.bfee >= thr(old.bfee) && g.spentGuess(a)-old.cost+t.cost <= g.head.bals[a] {
			g.pool[a][i] = t
		}
	case k < 17: // gapped
		t := g.freshTx(a, next+1+uint64(g.r.Intn(2)))
		g.emitAdd(t)
	case k == 17 && state > 0 && g.r.Chance(1, 2): // stale
		g.emitAdd(g.freshTx(a, state-1))
	case k == 17 && g.nextID > 0: // repeat a known tx
		g.emitAdd(g.byID(uint64(g.r.Intn(int(g.nextID)))))
	case k == 18: // overdraft
		t := g.freshTx(a, next)
		t.cost = g.head.bals[a] + 1 + uint64(g.r.Intn(1000))
		if t.cost < txGas*t.fee+blobGas*t.bfee {
			t.cost = txGas*t.fee + blobGas*t.bfee
		}
		g.emitAdd(t)
	default: // below the pool tip
		t := g.freshTx(a, next)
		if g.tip > 1 {
			t.tip = g.tip - 1
		}
		g.emitAdd(t)
	}
}

func (g *gen) opTip() {
	t := tipPalette[g.r.Intn(4)]
	g.ops = append(g.ops, L(I(1), U(t)))
	if t > g.tip {
		for a := 0; a < g.naccts; a++ {
			for i, x := range g.pool[a] {
				if x.tip < t {
					g.pool[a] = g.pool[a][:i]
					break
				}
			}
		}
	}
	g.tip = t
}

func (g *gen) typicalCost(a int) uint64 {
	if a == g.naccts-1 {
		return txGas*1000 + blobGas*100
	}
	return txGas*40 + blobGas*7
}

func (g *gen) pickBalance(a int) uint64 {
	switch g.r.Intn(8) {
	case 0:
		return uint64(g.r.Intn(5000))
	case 1, 2, 3:
		return 1 << 50
	default:
		return g.typicalCost(a) * uint64(2+g.r.Intn(7))
	}
}

// child builds a new block on top of parent
func (g *gen) child(parent *blockSpec, deep bool) *blockSpec {
	b := &blockSpec{id: g.nextBlk, parent: parent.id, num: parent.num + 1, nonces: append([]uint64{}, parent.nonces...), bals: append([]uint64{}, parent.bals...)}
	g.nextBlk++
	if deep {
		b.num = parent.num + 70
	}
	b.base = basePalette[g.r.Intn(len(basePalette))]
	if g.r.Chance(1, 2) {
		b.base = parent.base
	}
	b.blob = blobFeeOf(excessPalette[g.r.Intn(len(excessPalette))])
	if g.r.Chance(1, 2) {
		b.blob = parent.blob
	}
	for a := 0; a < g.naccts; a++ {
		in := g.r.Chance(1, 2)
		if !g.multi {
			in = a == g.chainAc && g.r.Chance(4, 5)
		}
		if g.sparse && g.r.Chance(3, 4) {
			in = false
		}
		if !in {
			if g.r.Chance(1, 5) { // funds received
				b.bals[a] += uint64(g.r.Intn(100000))
			}
			continue
		}
		k := 1 + g.r.Intn(3)
		for i := 0; i < k; i++ {
			n := b.nonces[a]
			ids := g.cand[[2]uint64{uint64(a), n}]
			switch {
			case g.r.Chance(1, 12):
				b.txs = append(b.txs, btxSpec{g.nextID + 0x4000 + uint64(len(g.blocks))*16 + uint64(len(b.txs)), uint64(a), false})
			case len(ids) == 0 || g.r.Chance(1, 8):
				t := g.freshTx(a, n) // never submitted to the pool (unless a later op does)
				b.txs = append(b.txs, btxSpec{t.id, uint64(a), true})
			default:
				id := ids[len(ids)-1]
				if g.r.Chance(1, 4) {
					id = ids[g.r.Intn(len(ids))]
				}
				b.txs = append(b.txs, btxSpec{id, uint64(a), true})
			}
			b.nonces[a]++
		}
		if g.r.Chance(1, 2) {
			b.bals[a] = g.pickBalance(a)
		}
	}
	g.blocks = append(g.blocks, b)
	return b
}

func (g *gen) blockByID(id uint64) *blockSpec { return g.blocks[id] }

func (g *gen) opReset() {
	var nb *blockSpec
	switch k := g.r.Intn(14); {
	case k < 7:
		nb = g.child(g.head, false)
	case k < 11 && g.head.id != 0: // sibling / uncle reorg; a sparse sibling loses the old branch's txs (reinjection)
		p := g.blockByID(g.head.parent)
		if g.r.Chance(1, 3) && p.id != 0 {
			p = g.blockByID(p.parent)
		}
		g.sparse = g.r.Chance(1, 2)
		nb = g.child(p, false)
		if g.r.Chance(1, 2) {
			nb = g.child(nb, false)
		}
		g.sparse = false
	case k == 11 && g.head.id != 0: // back to an ancestor
		nb = g.blockByID(g.head.parent)
	case k == 12:
		nb = g.child(g.head, true)
	default:
		nb = g.child(g.head, false)
	}
	// finality: never decreases, sometimes jumps to the new head
	switch g.r.Intn(6) {
	case 0:
		if nb.num > g.final {
			g.final = nb.num
		}
	case 1:
		if nb.num > 2 && nb.num-2 > g.final {
			g.final = nb.num - 2
		}
	}
	g.moveHead(nb)
}

// moveHead emits the Reset to nb and re-estimates what is pooled
func (g *gen) moveHead(nb *blockSpec) {
	g.ops = append(g.ops, L(I(2), U(nb.id), U(g.final)))
	for a := 0; a < g.naccts; a++ {
		var keep []*txSpec
		var spent uint64
		for _, t := range g.pool[a] {
			if t.nonce == nb.nonces[a]+uint64(len(keep)) && spent+t.cost <= nb.bals[a] {
				keep = append(keep, t)
				spent += t.cost
			}
		}
		g.pool[a] = keep
	}
	g.head = nb
}

func (g *gen) opRestart(crash bool) {
	tip := g.tip
	if g.r.Chance(1, 4) {
		tip = tipPalette[g.r.Intn(len(tipPalette))]
	}
	code := int64(3)
	if crash {
		code = 4
	}
	g.ops = append(g.ops, L(I(code), U(tip)))
	g.tip = tip
}

func (g *gen) tables() Sx {
	fe, fb := map[uint64]bool{}, map[uint64]bool{}
	for _, t := range g.txs {
		fe[t.fee], fb[t.bfee] = true, true
	}
	be, bb := map[uint64]bool{}, map[uint64]bool{}
	for _, b := range g.blocks {
		be[b.base], bb[b.blob] = true, true
	}
	keys := func(m map[uint64]bool) []uint64 {
		var out []uint64
		for k := range m {
			out = append(out, k)
		}
		sort.Slice(out, func(i, j int) bool { return out[i] < out[j] })
		return out
	}
	jE := func(v uint64) float64 { return blobpool.VerifDynamicFeeJumps(uint256.NewInt(v)) }
	jB := func(v uint64) float64 { return blobpool.VerifDynamicBlobFeeJumps(uint256.NewInt(v)) }
	prio := func(bases, fees []uint64, j func(uint64) float64) Sx {
		var out SL
		for _, b := range bases {
			for _, f := range fees {
				out = append(out, L(U(b), U(f), I(int64(blobpool.VerifEvictionPriority1D(j(b), j(f))))))
			}
		}
		return out
	}
	closePairs := func(fees []uint64, j func(uint64) float64) Sx {
		out := SL{}
		for _, a := range fees {
			for _, b := range fees {
				gt := j(a)-j(b) > 0.001
				if a <= b && gt {
					panic("fee jumps not monotone")
				}
				if a > b && !gt {
					out = append(out, L(U(a), U(b)))
				}
			}
		}
		return out
	}
	nearPairs := func(fees []uint64, j func(uint64) float64) Sx {
		out := SL{}
		for _, a := range fees {
			for _, b := range fees {
				if a < b && math.Abs(j(a)-j(b)) < 0.01 {
					out = append(out, L(U(a), U(b)))
				}
			}
		}
		return out
	}
	E, B := keys(fe), keys(fb)
	return L(prio(keys(be), E, jE), prio(keys(bb), B, jB), closePairs(E, jE), closePairs(B, jB), nearPairs(keys(be), jE), nearPairs(keys(bb), jB))
}

func genCase(r *Rng, tier string, style int) Sx {
	g := &gen{r: r, cand: map[[2]uint64][]uint64{}, sent: map[uint64]bool{}}
	g.naccts = 2 + r.Intn(3)
	g.bump = []uint64{10, 25, 100, 1}[r.Intn(4)]
	g.datacap = uint64(3+r.Intn(6))*141376 + uint64(r.Intn(1000))
	g.tip = tipPalette[r.Intn(2)]
	g.multi = style%2 == 0
	g.chainAc = r.Intn(g.naccts)
	tip0 := g.tip
	first := &blockSpec{id: 0, parent: 0, num: baseNumber + uint64(r.Intn(5)), base: basePalette[r.Intn(len(basePalette))], blob: blobFeeOf(excessPalette[r.Intn(len(excessPalette))])}
	for a := 0; a < g.naccts; a++ {
		first.nonces = append(first.nonces, []uint64{0, 3, 12, 25}[r.Intn(4)])
		first.bals = append(first.bals, g.pickBalance(a))
	}
	g.blocks = append(g.blocks, first)
	g.nextBlk = 1
	g.head = first
	g.final = first.num
	nops := 14 + r.Intn(18)
	if tier == "thorough" {
		nops = 20 + r.Intn(40)
	}
	for len(g.ops) < nops {
		switch k := r.Intn(100); {
		case k < 58:
			g.opAdd()
		case k < 65:
			g.opTip()
		case k < 82:
			g.opReset()
		case k < 86:
			g.opPlainReorg()
		case k < 93:
			g.opRestart(false)
		default:
			g.opRestart(!g.multi)
		}
	}
	return g.caseSx(tip0)
}

func (g *gen) caseSx(tip0 uint64) Sx {
	var txs, blocks SL
	for _, t := range g.txs {
		txs = append(txs, L(U(t.id), U(t.from), U(t.nonce), U(t.tip), U(t.fee), U(t.bfee), U(t.cost), U(t.shelf)))
	}
	for _, b := range g.blocks {
		var bt SL
		for _, t := range b.txs {
			bt = append(bt, L(U(t.tid), U(t.from), Bool(t.blob)))
		}
		var ns, bs SL
		for a := 0; a < g.naccts; a++ {
			ns = append(ns, U(b.nonces[a]))
			bs = append(bs, U(b.bals[a]))
		}
		blocks = append(blocks, L(U(b.id), U(b.parent), U(b.num), bt, ns, bs, U(b.base), U(b.blob)))
	}
	return L(L(U(g.datacap), U(g.bump), U(uint64(g.naccts)), U(tip0)), txs, blocks, g.tables(), g.ops)
}

// scripted witnesses (also stored in corpus/C42/edge.txt and replayed in coq/Pool/BlobProofs.v)
func scripted(k int) Sx {
	g := &gen{r: NewRng(uint64(k)), cand: map[[2]uint64][]uint64{}, sent: map[uint64]bool{}, naccts: 2, bump: 100, tip: 1}
	N := uint64(baseNumber)
	blk := func(id, parent, num uint64, txs []btxSpec, nonces, bals []uint64) *blockSpec {
		b := &blockSpec{id: id, parent: parent, num: num, txs: txs, nonces: nonces, bals: bals, base: 10, blob: blobFeeOf(0)}
		g.blocks = append(g.blocks, b)
		return b
	}
	rich := []uint64{1 << 50, 1 << 50}
	mk := func(from int, nonce, tip uint64) *txSpec {
		t := g.addTx(from, nonce, tip, 100, 7, txGas*100+blobGas*7+500)
		t.shelf = 1
		return t
	}
	switch k {
	case 0: // stale eviction heap: account 0's rolling tip drops to 1 without heap.Fix; the overflow evicts account 1
		g.datacap = 3*141376 + 10
		blk(0, 0, N, nil, []uint64{0, 0}, rich)
		for _, t := range []*txSpec{mk(0, 0, 10), mk(1, 0, 5), mk(0, 1, 1), mk(1, 1, 5)} {
			g.emitAdd(t)
		}
	case 1: // limbo keeps the old branch's block number; finality of that number drops the blobs; the next reorg loses the tx
		g.datacap = 8 * 141376
		t := mk(0, 0, 5)
		in := []btxSpec{{t.id, 0, true}}
		blk(0, 0, N, nil, []uint64{0, 0}, rich)
		blk(1, 0, N+1, in, []uint64{1, 0}, rich)
		blk(2, 0, N+1, nil, []uint64{0, 0}, rich)
		blk(3, 2, N+2, in, []uint64{1, 0}, rich)
		blk(4, 2, N+2, nil, []uint64{0, 0}, rich)
		g.emitAdd(t)
		g.ops = append(g.ops, L(I(2), U(1), U(N)), L(I(2), U(3), U(N+1)), L(I(2), U(4), U(N+1)))
	case 2: // recheck tests "gapped" before it drops the stale prefix: reinjected [n2] + pooled [n4 n5] with state nonce 3 keeps [n4 n5]
		g.datacap = 8 * 141376
		t2, t3, t4, t5 := mk(0, 2, 5), mk(0, 3, 5), mk(0, 4, 5), mk(0, 5, 5)
		x3, y2 := mk(0, 3, 6), mk(0, 2, 6) // never submitted: mined by the signer behind the pool's back
		blk(0, 0, N, nil, []uint64{2, 0}, rich)
		blk(1, 0, N+1, []btxSpec{{t2.id, 0, true}, {x3.id, 0, true}, {t4.id, 0, true}}, []uint64{5, 0}, rich)
		blk(2, 0, N+1, []btxSpec{{y2.id, 0, true}}, []uint64{3, 0}, rich)
		for _, t := range []*txSpec{t2, t3, t4, t5} {
			g.emitAdd(t)
		}
		g.ops = append(g.ops, L(I(2), U(1), U(N)), L(I(2), U(2), U(N)))
	}
	return g.caseSx(1)
}

func genAll(r *Rng, tier string, emit func(Sx)) {
	if os.Getenv("C42_SCRIPTED") != "" {
		emit(scripted(0))
		emit(scripted(1))
		emit(scripted(2))
		emit(scripted3())
		emit(scripted4())
		return
	}
	r = NewRng(r.U64())
	n := 30
	if tier == "thorough" {
		n = 400
	}
	for i := 0; i < n; i++ {
		emit(genCase(r.Fork(), tier, i))
		if i%3 == 2 { // every fourth case: per-dimension bottlenecks, replacements at every position, overflow
			emit(genBottleneck(r.Fork(), tier))
		}
	}
}
