package main

import (
	. "gethverif/harness/hxlib"
)

// opPlainReorg: a block mines a NON-blob transaction of an account, blob txs with the following
// nonces are pooled on top, then a reorg abandons that block for a sibling without any
// transaction of the account: the state nonce goes back, so the account must be rechecked
// (it is a transactor of the old branch although nothing of it can be reinjected).
func (g *gen) opPlainReorg() {
	a := g.r.Intn(g.naccts)
	if !g.multi {
		a = g.chainAc
	}
	parent := g.head
	mk := func() *blockSpec {
		b := &blockSpec{id: g.nextBlk, parent: parent.id, num: parent.num + 1,
			nonces: append([]uint64{}, parent.nonces...), bals: append([]uint64{}, parent.bals...), base: parent.base, blob: parent.blob}
		g.nextBlk++
		g.blocks = append(g.blocks, b)
		return b
	}
	b := mk()
	b.txs = []btxSpec{{0x5000 + b.id*4, uint64(a), false}}
	b.nonces[a]++
	if b.bals[a] < g.typicalCost(a)*4 {
		b.bals[a] = g.typicalCost(a) * 4
	}
	g.moveHead(b)
	for k := 0; k < 1+g.r.Intn(2); k++ {
		t := g.freshTx(a, b.nonces[a]+uint64(k))
		t.fee, t.bfee = feePalette[g.r.Intn(3)], bfeePalette[g.r.Intn(3)]
		if t.fee < t.tip {
			t.fee = t.tip
		}
		t.cost = g.cost(t.fee, t.bfee)
		if t.tip < g.tip {
			t.tip = g.tip
			if t.fee < t.tip {
				t.fee = t.tip
				t.cost = g.cost(t.fee, t.bfee)
			}
		}
		g.emitAdd(t)
		g.pool[a] = append(g.pool[a], t)
	}
	if g.r.Chance(1, 3) {
		g.opAdd()
	}
	s := mk()
	if g.multi && g.naccts > 1 && g.r.Chance(1, 2) { // the sibling may carry somebody else's tx
		o := (a + 1) % g.naccts
		t := g.freshTx(o, s.nonces[o])
		s.txs = []btxSpec{{t.id, uint64(o), true}}
		s.nonces[o]++
	}
	g.moveHead(s)
}

// scripted4: the corpus witness of the same shape
func scripted4() Sx {
	g := &gen{r: NewRng(4), cand: map[[2]uint64][]uint64{}, sent: map[uint64]bool{}, naccts: 2, bump: 100, tip: 1}
	rich := []uint64{1 << 50, 1 << 50}
	N := uint64(baseNumber)
	g.blocks = append(g.blocks,
		&blockSpec{id: 0, parent: 0, num: N, nonces: []uint64{0, 0}, bals: rich, base: 10, blob: blobFeeOf(0)},
		&blockSpec{id: 1, parent: 0, num: N + 1, txs: []btxSpec{{0x5004, 0, false}}, nonces: []uint64{1, 0}, bals: rich, base: 10, blob: blobFeeOf(0)},
		&blockSpec{id: 2, parent: 0, num: N + 1, nonces: []uint64{0, 0}, bals: rich, base: 10, blob: blobFeeOf(0)})
	g.datacap = 8 * 141376
	g.ops = append(g.ops, L(I(2), U(1), U(N)))
	g.emitAdd(g.fixedTx(0, 1, 5, 100, 7))
	g.emitAdd(g.fixedTx(0, 2, 5, 100, 7))
	g.ops = append(g.ops, L(I(2), U(2), U(N)))
	g.emitAdd(g.fixedTx(0, 0, 5, 100, 7))
	return g.caseSx(1)
}
