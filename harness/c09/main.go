// Family c09: trie/proof.go VerifyRangeProof (proofToPath, unsetInternal, unset,
// hasRightElement, the StackTrie no-proof branch, Trie.Update + Hash on the partial
// trie) vs coq/Trie/Range.v (with Trie/Hash.v decode_node / node_enc, Trie/Ops.v insert,
// Trie/Stack.v and the Coq Keccak).
//
//	case  = ( trie (query..) )      trie = ((key value)..), inserted with Update
//	query = ( rootHash firstKey (key..) (value..) proof )
//	proof = (0) nil | (1 blob..) a proof set holding each blob under its Keccak-256
//	observation = ( (more class)..)  class 0 = accepted, else the error class
package main

import (
	"bytes"
	"errors"
	"fmt"
	"sort"
	"strings"

	"github.com/ethereum/go-ethereum/common"
	"github.com/ethereum/go-ethereum/core/rawdb"
	"github.com/ethereum/go-ethereum/crypto"
	"github.com/ethereum/go-ethereum/ethdb"
	"github.com/ethereum/go-ethereum/ethdb/memorydb"
	"github.com/ethereum/go-ethereum/rlp"
	"github.com/ethereum/go-ethereum/trie"
	"github.com/ethereum/go-ethereum/triedb"
	. "gethverif/harness/hxlib"
)

type kv struct{ k, v []byte }

type resp struct {
	root     []byte
	first    []byte
	keys     [][]byte
	vals     [][]byte
	proof    [][]byte
	nilProof bool
}

func (q resp) sx() Sx {
	ks, vs := SL{}, SL{}
	for _, k := range q.keys {
		ks = append(ks, B(k))
	}
	for _, v := range q.vals {
		vs = append(vs, B(v))
	}
	p := SL{I(0)}
	if !q.nilProof {
		p = SL{I(1)}
		for _, b := range q.proof {
			p = append(p, B(b))
		}
	}
	return L(B(q.root), B(q.first), ks, vs, p)
}

func parseResp(s Sx) resp {
	l := AsList(s)
	q := resp{root: AsBytes(l[0]), first: AsBytes(l[1])}
	for _, k := range AsList(l[2]) {
		q.keys = append(q.keys, AsBytes(k))
	}
	for _, v := range AsList(l[3]) {
		q.vals = append(q.vals, AsBytes(v))
	}
	p := AsList(l[4])
	if AsInt(p[0]) == 0 {
		q.nilProof = true
	} else {
		for _, b := range p[1:] {
			q.proof = append(q.proof, AsBytes(b))
		}
	}
	return q
}

func (q resp) clone() resp {
	c := resp{root: common.CopyBytes(q.root), first: common.CopyBytes(q.first), nilProof: q.nilProof}
	for _, k := range q.keys {
		c.keys = append(c.keys, common.CopyBytes(k))
	}
	for _, v := range q.vals {
		c.vals = append(c.vals, common.CopyBytes(v))
	}
	for _, b := range q.proof {
		c.proof = append(c.proof, common.CopyBytes(b))
	}
	return c
}

// ---------------------------------------------------------------- the trie and its truth

func newTrie() *trie.Trie {
	return trie.NewEmpty(triedb.NewDatabase(rawdb.NewMemoryDatabase(), nil))
}

// build inserts the entries (later entries overwrite; empty values are skipped) and
// returns the trie with its sorted contents.
func build(kvs []kv) (*trie.Trie, []kv) {
	t := newTrie()
	m := map[string][]byte{}
	for _, e := range kvs {
		if len(e.v) == 0 {
			continue
		}
		t.MustUpdate(e.k, e.v)
		m[string(e.k)] = e.v
	}
	var truth []kv
	for k, v := range m {
		truth = append(truth, kv{[]byte(k), v})
	}
	sort.Slice(truth, func(i, j int) bool { return bytes.Compare(truth[i].k, truth[j].k) < 0 })
	return t, truth
}

type blobList struct{ blobs [][]byte }

func (b *blobList) Put(k, v []byte) error {
	b.blobs = append(b.blobs, common.CopyBytes(v))
	return nil
}
func (b *blobList) Delete(k []byte) error { panic("Prove called Delete") }

func proveNodes(t *trie.Trie, key []byte) [][]byte {
	var bl blobList
	if err := t.Prove(key, &bl); err != nil {
		panic("hxlib: Prove failed: " + err.Error())
	}
	return bl.blobs
}

func union(a, b [][]byte) [][]byte {
	out := append([][]byte{}, a...)
	for _, x := range b {
		dup := false
		for _, y := range out {
			if bytes.Equal(x, y) {
				dup = true
				break
			}
		}
		if !dup {
			out = append(out, x)
		}
	}
	return out
}

func contains(set [][]byte, sub [][]byte) bool {
	for _, x := range sub {
		ok := false
		for _, y := range set {
			if bytes.Equal(x, y) {
				ok = true
				break
			}
		}
		if !ok {
			return false
		}
	}
	return true
}

// ---------------------------------------------------------------- running the implementation

var errClasses = []struct {
	s string
	c int64
}{
	{"inconsistent proof data", 1},
	{"range is not monotonically increasing", 2},
	{"range contains path prefixes", 3},
	{"range contains deletion", 4},
	{"invalid proof, want hash", 5},
	{"bad proof node", 7},
	{"the node is not contained in trie", 8},
	{"more entries available", 9},
	{"unexpected key-value pairs preceding the requested range", 10},
	{"correct proof but invalid key", 11},
	{"correct proof but invalid data", 12},
	{"invalid edge keys", 13},
	{"inconsistent edge keys", 14},
	{"empty range", 15},
}

func classify(err error) int64 {
	if err == nil {
		return 0
	}
	var mne *trie.MissingNodeError
	if errors.As(err, &mne) {
		return 16
	}
	s := err.Error()
	if strings.HasPrefix(s, "proof node (hash ") && strings.HasSuffix(s, "missing") {
		return 6
	}
	for _, e := range errClasses {
		if strings.HasPrefix(s, e.s) {
			return e.c
		}
	}
	return 99
}

func verify(q resp) (more bool, class int64, panicked string) {
	defer func() {
		if e := recover(); e != nil {
			more, class, panicked = false, 17, fmt.Sprint(e)
		}
	}()
	var db ethdb.KeyValueReader
	if !q.nilProof {
		m := memorydb.New()
		for _, b := range q.proof {
			m.Put(crypto.Keccak256(b), b)
		}
		db = m
	}
	m, err := trie.VerifyRangeProof(common.BytesToHash(q.root), q.first, q.keys, q.vals, db)
	return m, classify(err), ""
}

// ---------------------------------------------------------------- the direct property oracle

func branchOf(q resp) string {
	switch {
	case q.nilProof:
		return "noproof"
	case len(q.keys) == 0:
		return "empty"
	case len(q.keys) == 1 && bytes.Equal(q.first, q.keys[0]):
		return "single"
	default:
		return "general"
	}
}

func fixedLen(truth []kv) bool {
	for _, e := range truth {
		if len(e.k) != len(truth[0].k) || len(e.k) == 0 {
			return false
		}
	}
	return true
}

// hasPrefixKey: some key of the trie is a proper prefix of another one
func hasPrefixKey(truth []kv) bool {
	for i := 0; i+1 < len(truth); i++ {
		if bytes.HasPrefix(truth[i+1].k, truth[i].k) {
			return true
		}
	}
	return false
}

func sameRun(keys, vals [][]byte, es []kv) bool {
	if len(keys) != len(es) || len(vals) != len(es) {
		return false
	}
	for i, e := range es {
		if !bytes.Equal(keys[i], e.k) || !bytes.Equal(vals[i], e.v) {
			return false
		}
	}
	return true
}

// isPrefixKey: k is a proper prefix of another key of the trie (it is stored in slot 16 of a branch)
func isPrefixKey(truth []kv, k []byte) bool {
	for _, e := range truth {
		if len(e.k) > len(k) && bytes.HasPrefix(e.k, k) {
			return true
		}
	}
	return false
}

const (
	knownEmptyKey  = "C09-empty-key-noproof-panic: VerifyRangeProof panics on an empty key in the no-proof branch (StackTrie.Update -> writeHexKey indexes dst[2*len(key)-1] = dst[-1])"
	knownPrefixKey = "C09-prefix-key-trie: the trie holds a key that is a proper prefix of another key (a value in slot 16 of a branch on an edge path): "
)

// judge states the property on one query: "" = holds.
func judge(t *trie.Trie, truth []kv, q resp, more bool, class int64, pan string) string {
	rootOK := bytes.Equal(q.root, t.Hash().Bytes())
	if class == 17 {
		if q.nilProof && strings.Contains(pan, "index out of range [-1]") {
			for _, k := range q.keys {
				if len(k) == 0 {
					return knownEmptyKey
				}
			}
		}
		if !rootOK {
			return "" // proof nodes reachable from a foreign root need not be genuine: observed, not judged
		}
		if hasPrefixKey(truth) && pan == "it shouldn't happen" {
			return knownPrefixKey + "unset() reaches the valueNode and panics (it shouldn't happen)"
		}
		return "panic: " + pan
	}
	if class == 99 {
		return "unclassified error"
	}
	if !rootOK {
		// a root that is not the case's trie's (tampered root, or a shrink candidate that changed the
		// trie under the queries): nothing to judge against; observed and compared with the model only
		return ""
	}
	accepted := class == 0
	// the true contents over the interval the response covers
	var want []kv
	beyond := false
	switch {
	case q.nilProof:
		want = truth
	case len(q.keys) == 0:
		for _, e := range truth {
			if bytes.Compare(e.k, q.first) >= 0 {
				beyond = true // any entry at or after firstKey must make an empty run fail
			}
		}
	default:
		last := q.keys[len(q.keys)-1]
		for _, e := range truth {
			if bytes.Compare(e.k, q.first) >= 0 && bytes.Compare(e.k, last) <= 0 {
				want = append(want, e)
			}
			if bytes.Compare(e.k, last) > 0 {
				beyond = true
			}
		}
	}
	exact := len(q.keys) == len(q.vals) && sameRun(q.keys, q.vals, want)
	if len(q.keys) == 0 && !q.nilProof {
		exact = !beyond && len(q.vals) == 0
	}
	if accepted {
		// an accepted run consists of entries of the trie, values non-empty: checked on its own,
		// before (and whatever) the comparison with the interval's contents says
		if len(q.keys) == len(q.vals) {
			for i, k := range q.keys {
				if len(q.vals[i]) == 0 {
					return fmt.Sprintf("accepted a run containing an empty value (a deletion) at position %d of %d (%s)", i, len(q.keys), branchOf(q))
				}
				if len(k) > 0 || !q.nilProof {
					found := false
					for _, e := range truth {
						if bytes.Equal(e.k, k) {
							found = true
							if !bytes.Equal(e.v, q.vals[i]) {
								return fmt.Sprintf("accepted a run whose value at position %d differs from the trie's (%s)", i, branchOf(q))
							}
						}
					}
					if !found {
						return fmt.Sprintf("accepted a run containing a key that is not in the trie, at position %d of %d (%s)", i, len(q.keys), branchOf(q))
					}
				}
			}
		}
		// soundness, for every proof set
		startRelated := false // the start key is a proper prefix of a key of the trie or extends one:
		for _, e := range truth { // outside the guard "keys and start key of one fixed length"; observed, not judged
			if len(e.k) != len(q.first) && (bytes.HasPrefix(e.k, q.first) || bytes.HasPrefix(q.first, e.k)) {
				startRelated = true
			}
		}
		if !exact {
			if startRelated && !q.nilProof && !hasPrefixKey(truth) {
				return ""
			}
			if hasPrefixKey(truth) && len(q.keys) == len(q.vals) {
				// recorded mechanism: the run is the true content minus entries stored in slot 16 of a branch
				sub, i := true, 0
				for _, e := range want {
					if i < len(q.keys) && bytes.Equal(q.keys[i], e.k) && bytes.Equal(q.vals[i], e.v) {
						i++
					} else if !isPrefixKey(truth, e.k) {
						sub = false
					}
				}
				if len(q.keys) == 0 && !q.nilProof {
					// empty run accepted although entries exist at or after firstKey: all of them must hang off prefix keys
					sub, i = isPrefixKey(truth, q.first) || hasPrefixKey(truth), 0
				}
				if sub && i == len(q.keys) {
					return knownPrefixKey + "a run omitting branch-value entries inside the covered interval is accepted (" + branchOf(q) + ")"
				}
			}
			return fmt.Sprintf("accepted a run that differs from the trie's contents over the covered interval (%s)", branchOf(q))
		}
		wantMore := beyond && !q.nilProof && len(q.keys) > 0
		if more != wantMore {
			if startRelated && !hasPrefixKey(truth) {
				return ""
			}
			if hasPrefixKey(truth) && len(q.keys) > 0 && !more && isPrefixKey(truth, q.keys[len(q.keys)-1]) {
				return knownPrefixKey + "more=false although longer keys extending the last key exist (hasRightElement stops at slot 16)"
			}
			return fmt.Sprintf("more=%v but entries beyond the last key exist=%v (%s)", more, wantMore, branchOf(q))
		}
		return ""
	}
	// completeness, for honest responses over tries with non-empty keys of one fixed length
	if !exact || !(fixedLen(truth) || len(truth) == 0) {
		return ""
	}
	honest := false
	switch {
	case q.nilProof:
		honest = true
	case len(truth) == 0:
		// the empty trie has no root node to prove: snap never asks (cf. C08-empty-trie-proof)
	case len(q.first) != len(truth[0].k):
		// the guard: the start key has the length of the keys
	case len(q.keys) == 0:
		honest = contains(q.proof, proveNodes(t, q.first))
	default:
		last := q.keys[len(q.keys)-1]
		honest = bytes.Compare(q.first, q.keys[0]) <= 0 && len(q.first) == len(last) &&
			contains(q.proof, proveNodes(t, q.first)) && contains(q.proof, proveNodes(t, last))
	}
	if honest {
		return fmt.Sprintf("honest response rejected with class %d (%s)", class, branchOf(q))
	}
	return ""
}

func run(c Sx) Result {
	top := AsList(c)
	var kvs []kv
	for _, e := range AsList(top[0]) {
		p := AsList(e)
		kvs = append(kvs, kv{AsBytes(p[0]), AsBytes(p[1])})
	}
	t, truth := build(kvs)
	crafted := len(top) >= 3 // hand-made (non-genuine) proof nodes: observed and compared with the model, not judged
	var obs SL
	var fails []string
	tag := map[string]bool{}
	nacc, nrej := 0, 0
	for qi, qs := range AsList(top[1]) {
		q := parseResp(qs)
		more, class, pan := verify(q)
		obs = append(obs, L(Bool(more), I(class)))
		msg := judge(t, truth, q, more, class, pan)
		if crafted {
			msg = ""
			if class == 99 {
				msg = "unclassified error"
			}
		}
		if msg != "" && len(fails) < 3 {
			if strings.HasPrefix(msg, "C09-") {
				fails = append(fails, msg)
			} else {
				fails = append(fails, fmt.Sprintf("q%d: %s", qi, msg))
			}
		}
		if class == 0 {
			nacc++
			tag[fmt.Sprintf("%s:ok:more%v", branchOf(q), more)] = true
		} else {
			nrej++
			tag[fmt.Sprintf("%s:err%d", branchOf(q), class)] = true
		}
	}
	res := Result{Obs: obs}
	// a recorded-finding message leads only when nothing else failed
	sort.SliceStable(fails, func(i, j int) bool {
		return !strings.HasPrefix(fails[i], "C09-") && strings.HasPrefix(fails[j], "C09-")
	})
	if len(fails) > 0 {
		res.Oracle = strings.Join(fails, " | ")
	}
	n := len(truth)
	switch {
	case n == 0:
		tag["keys0"] = true
	case n == 1:
		tag["keys1"] = true
	case n <= 8:
		tag["keys2-8"] = true
	case n <= 32:
		tag["keys9-32"] = true
	default:
		tag["keys33+"] = true
	}
	if n > 0 {
		tag[fmt.Sprintf("keylen%d", min(len(truth[0].k), 32))] = true
		if !fixedLen(truth) {
			tag["varlen"] = true
		}
	}
	for k := range tag {
		res.Tags = append(res.Tags, k)
	}
	if crafted {
		res.Tags = append(res.Tags, "crafted")
	}
	res.NonTrivial = n >= 2 && nacc >= 1 && nrej >= 1
	return res
}

// ---------------------------------------------------------------- generator

func inc(k []byte) []byte {
	o := common.CopyBytes(k)
	for i := len(o) - 1; i >= 0; i-- {
		o[i]++
		if o[i] != 0 {
			return o
		}
	}
	return nil
}

func dec(k []byte) []byte {
	o := common.CopyBytes(k)
	for i := len(o) - 1; i >= 0; i-- {
		o[i]--
		if o[i] != 0xff {
			return o
		}
	}
	return nil
}

func genVal(r *Rng) []byte {
	switch r.Intn(6) {
	case 0:
		return r.Bytes(1 + r.Intn(3))
	case 1, 2:
		return r.Bytes(32 + r.Intn(40))
	default:
		return r.Bytes(1 + r.Intn(40))
	}
}

// styles: 0 random 32-byte keys; 1 32-byte keys sharing long prefixes (dense); 2 one-byte keys;
// 3 two-byte keys over a small alphabet (dense); 4 three-byte keys; 5 mixed-length keys with
// keys that are prefixes of others (adversarial: outside snap's use)
func genKey(r *Rng, style int) []byte {
	switch style {
	case 0:
		return r.Bytes(32)
	case 1:
		k := make([]byte, 32)
		base := byte(r.Intn(2)) * 0x10
		for i := range k {
			k[i] = base
		}
		p := 29 + r.Intn(3)
		k[p] = byte(r.Intn(3)) << uint(4*r.Intn(2))
		if r.Chance(1, 2) {
			k[31] = byte(r.Intn(4)) | byte(r.Intn(3))<<4
		}
		return k
	case 2:
		return []byte{byte(r.Intn(256))}
	case 3:
		al := []byte{0x00, 0x01, 0x10, 0x11, 0xf0, 0xff}
		return []byte{al[r.Intn(len(al))], al[r.Intn(len(al))]}
	case 4:
		al := []byte{0x00, 0x01, 0x10, 0x7f, 0x80, 0xff}
		return []byte{al[r.Intn(len(al))], al[r.Intn(len(al))], byte(r.Intn(256))}
	default:
		al := []byte{0x00, 0x01, 0x10, 0x11}
		k := make([]byte, 1+r.Intn(3))
		for i := range k {
			k[i] = al[r.Intn(4)]
		}
		return k
	}
}

func honest(t *trie.Trie, truth []kv, f []byte, j int) resp {
	q := resp{root: t.Hash().Bytes(), first: common.CopyBytes(f)}
	q.proof = proveNodes(t, f)
	if j >= 0 {
		for _, e := range truth[:j+1] {
			if bytes.Compare(e.k, f) >= 0 {
				q.keys = append(q.keys, e.k)
				q.vals = append(q.vals, e.v)
			}
		}
		q.proof = union(q.proof, proveNodes(t, truth[j].k))
	}
	return q
}

func whole(t *trie.Trie, truth []kv) resp {
	q := resp{root: t.Hash().Bytes(), nilProof: true}
	for _, e := range truth {
		q.keys = append(q.keys, e.k)
		q.vals = append(q.vals, e.v)
	}
	return q
}

func insertAt(l [][]byte, i int, x []byte) [][]byte {
	out := append([][]byte{}, l[:i]...)
	out = append(out, x)
	return append(out, l[i:]...)
}

func removeAt(l [][]byte, i int) [][]byte {
	out := append([][]byte{}, l[:i]...)
	return append(out, l[i+1:]...)
}

// tamperAll enumerates single tamperings of a response: every index for the per-entry and
// per-node kinds.  [cands] are keys used for injection / key alteration, [others] further tries
// whose nodes / roots are mixed in.
func tamperAll(t *trie.Trie, truth []kv, h resp, cands [][]byte, other *trie.Trie, otherTruth []kv) []resp {
	var out []resp
	add := func(f func(q *resp) bool) {
		q := h.clone()
		if f(&q) {
			out = append(out, q)
		}
	}
	n := len(h.keys)
	present := func(k []byte) bool {
		for _, e := range truth {
			if bytes.Equal(e.k, k) {
				return true
			}
		}
		return false
	}
	for i := 0; i < n; i++ {
		i := i
		add(func(q *resp) bool { // drop an entry
			q.keys, q.vals = removeAt(q.keys, i), removeAt(q.vals, i)
			return true
		})
		add(func(q *resp) bool { // alter a value
			q.vals[i][len(q.vals[i])/2] ^= 0x01
			return true
		})
		add(func(q *resp) bool { // lengthen a value
			q.vals[i] = append(q.vals[i], 0x00)
			return true
		})
		add(func(q *resp) bool { // a deletion marker
			q.vals[i] = []byte{}
			return true
		})
		add(func(q *resp) bool { // duplicate an entry
			q.keys, q.vals = insertAt(q.keys, i, q.keys[i]), insertAt(q.vals, i, q.vals[i])
			return true
		})
		if i+1 < n {
			add(func(q *resp) bool { // reorder
				q.keys[i], q.keys[i+1] = q.keys[i+1], q.keys[i]
				q.vals[i], q.vals[i+1] = q.vals[i+1], q.vals[i]
				return true
			})
			add(func(q *resp) bool { // swap the values only
				q.vals[i], q.vals[i+1] = q.vals[i+1], q.vals[i]
				return !bytes.Equal(q.vals[i], q.vals[i+1])
			})
		}
		for _, ck := range cands { // alter a key, keeping the order where possible
			ck := ck
			if present(ck) {
				continue
			}
			add(func(q *resp) bool {
				q.keys[i] = common.CopyBytes(ck)
				return true
			})
		}
		add(func(q *resp) bool { // claim a shorter run, keep the proofs
			if i == 0 {
				return false
			}
			q.keys, q.vals = q.keys[:i], q.vals[:i]
			return true
		})
	}
	for _, ck := range cands { // inject an entry at its sorted position
		ck := ck
		if present(ck) {
			continue
		}
		add(func(q *resp) bool {
			pos := sort.Search(len(q.keys), func(i int) bool { return bytes.Compare(q.keys[i], ck) >= 0 })
			q.keys = insertAt(q.keys, pos, common.CopyBytes(ck))
			q.vals = insertAt(q.vals, pos, []byte{0x2a, 0x2b})
			return true
		})
	}
	{ // inject an (absent key, EMPTY value) pair: at its sorted position for every candidate, and at
		// position 0 (the start key itself / the predecessor of the first key) and at the end (the
		// successor of the last key); the injected key's own proof is added, so that it may be an edge
		extra := append([][]byte{}, cands...)
		if len(h.first) > 0 {
			extra = append(extra, h.first)
		}
		if n > 0 {
			if d := dec(h.keys[0]); d != nil {
				extra = append(extra, d)
			}
			if u := inc(h.keys[n-1]); u != nil {
				extra = append(extra, u)
			}
		} else if len(h.first) > 0 {
			if u := inc(h.first); u != nil {
				extra = append(extra, u)
			}
		}
		if len(truth) > 0 {
			extra = append(extra, make([]byte, len(truth[0].k)))
		}
		seen := map[string]bool{}
		for _, ck := range extra {
			ck := ck
			if present(ck) || seen[string(ck)] || len(ck) == 0 {
				continue
			}
			seen[string(ck)] = true
			add(func(q *resp) bool {
				if !q.nilProof && bytes.Compare(ck, q.first) < 0 {
					return false // would only trip the "preceding the requested range" check
				}
				pos := sort.Search(len(q.keys), func(i int) bool { return bytes.Compare(q.keys[i], ck) >= 0 })
				q.keys = insertAt(q.keys, pos, common.CopyBytes(ck))
				q.vals = insertAt(q.vals, pos, []byte{})
				if !q.nilProof {
					q.proof = union(q.proof, proveNodes(t, ck))
				}
				return true
			})
		}
	}
	if n > 0 { // inject out of order
		add(func(q *resp) bool {
			q.keys = append(q.keys, common.CopyBytes(q.keys[0]))
			q.vals = append(q.vals, []byte{0x01})
			return true
		})
		add(func(q *resp) bool { // keys / values length mismatch
			q.vals = q.vals[:len(q.vals)-1]
			return true
		})
	}
	if !h.nilProof {
		for i := range h.proof {
			i := i
			add(func(q *resp) bool { // drop a proof node
				q.proof = removeAt(q.proof, i)
				return true
			})
			add(func(q *resp) bool { // damage a proof node (it becomes unreachable garbage)
				q.proof[i][len(q.proof[i])/2] ^= 0x40
				return true
			})
		}
		add(func(q *resp) bool { // first edge proof only
			q.proof = proveNodes(t, q.first)
			return n > 0
		})
		add(func(q *resp) bool { // last edge proof only
			if n == 0 {
				return false
			}
			q.proof = proveNodes(t, q.keys[n-1])
			return true
		})
		add(func(q *resp) bool { // truncated first edge proof
			p := proveNodes(t, q.first)
			if len(p) < 2 {
				return false
			}
			q.proof = p[:len(p)-1]
			if n > 0 {
				q.proof = union(q.proof, proveNodes(t, q.keys[n-1]))
			}
			return true
		})
		add(func(q *resp) bool { // truncated last edge proof
			if n == 0 {
				return false
			}
			p := proveNodes(t, q.keys[n-1])
			if len(p) < 2 {
				return false
			}
			q.proof = union(proveNodes(t, q.first), p[:len(p)-1])
			return true
		})
		add(func(q *resp) bool { // edge proofs of other keys (the neighbours' proofs)
			if len(truth) < 2 {
				return false
			}
			q.proof = union(proveNodes(t, truth[0].k), proveNodes(t, truth[len(truth)-1].k))
			return true
		})
		add(func(q *resp) bool { // no proof at all for a partial run
			q.nilProof, q.proof = true, nil
			return true
		})
		add(func(q *resp) bool { // an empty, non-nil proof set
			q.proof = nil
			return true
		})
		for _, d := range [][]byte{dec(h.first), inc(h.first)} { // move the start key, keep the proof
			d := d
			if d == nil {
				continue
			}
			add(func(q *resp) bool {
				q.first = d
				return true
			})
			add(func(q *resp) bool { // ... and prove the new start key honestly
				q.first = d
				q.proof = union(q.proof, proveNodes(t, d))
				return true
			})
		}
		add(func(q *resp) bool { // a start key of another length (shorter), honestly proved
			if len(q.first) < 2 {
				return false
			}
			q.first = q.first[:len(q.first)-1]
			q.proof = union(q.proof, proveNodes(t, q.first))
			return true
		})
		add(func(q *resp) bool { // a start key of another length (longer), honestly proved
			q.first = append(q.first, 0x00)
			q.proof = union(q.proof, proveNodes(t, q.first))
			return true
		})
		if len(truth) > 0 { // start key moved below an entry that is left out, honestly proved
			add(func(q *resp) bool {
				if n == 0 {
					q.first = common.CopyBytes(truth[len(truth)-1].k)
				} else {
					idx := sort.Search(len(truth), func(i int) bool { return bytes.Compare(truth[i].k, q.keys[0]) >= 0 })
					if idx == 0 {
						return false
					}
					q.first = common.CopyBytes(truth[idx-1].k)
				}
				q.proof = union(q.proof, proveNodes(t, q.first))
				return true
			})
		}
		if other != nil && len(otherTruth) > 0 { // bloat with nodes of another trie
			add(func(q *resp) bool {
				q.proof = union(q.proof, proveNodes(other, otherTruth[0].k))
				q.proof = union(q.proof, proveNodes(other, otherTruth[len(otherTruth)-1].k))
				return true
			})
			add(func(q *resp) bool { // the other trie's root
				q.root = other.Hash().Bytes()
				return !bytes.Equal(q.root, h.root)
			})
		}
	}
	add(func(q *resp) bool { // a damaged root
		q.root[7] ^= 0x10
		return true
	})
	return out
}

type emitter struct {
	emit  func(Sx)
	tr    SL
	batch SL
	max   int
}

func (e *emitter) add(q resp) {
	e.batch = append(e.batch, q.sx())
	if len(e.batch) >= e.max {
		e.flush()
	}
}
func (e *emitter) flush() {
	if len(e.batch) > 0 {
		e.emit(L(e.tr, e.batch))
		e.batch = nil
	}
}

func kvsSx(kvs []kv) SL {
	l := SL{}
	for _, e := range kvs {
		l = append(l, L(B(e.k), B(e.v)))
	}
	return l
}

// startKeys: the start keys tried against a trie: every key, its two neighbours, the zero key
// and the all-0xff key (deduplicated, sorted)
func startKeys(truth []kv, klen int) [][]byte {
	m := map[string]bool{}
	addk := func(k []byte) {
		if k != nil {
			m[string(k)] = true
		}
	}
	addk(make([]byte, klen))
	addk(bytes.Repeat([]byte{0xff}, klen))
	for _, e := range truth {
		addk(e.k)
		addk(inc(e.k))
		addk(dec(e.k))
	}
	var out [][]byte
	for k := range m {
		out = append(out, []byte(k))
	}
	sort.Slice(out, func(i, j int) bool { return bytes.Compare(out[i], out[j]) < 0 })
	return out
}

// allBoundaries emits, for one trie, every honest run (every start key of startKeys x every last
// entry), every honest empty run, the whole-trie run, and [ntamper] tamperings of each
// (all of them if ntamper < 0).
func allBoundaries(r *Rng, em *emitter, t *trie.Trie, truth []kv, klen int, cands [][]byte, ntamper int, other *trie.Trie, otherTruth []kv) {
	tam := func(h resp) {
		all := tamperAll(t, truth, h, cands, other, otherTruth)
		if ntamper < 0 {
			for _, q := range all {
				em.add(q)
			}
			return
		}
		for i := 0; i < ntamper && len(all) > 0; i++ {
			em.add(all[r.Intn(len(all))])
		}
	}
	w := whole(t, truth)
	em.add(w)
	tam(w)
	for _, f := range startKeys(truth, klen) {
		if len(truth) > 0 {
			e := honest(t, truth, f, -1)
			em.add(e)
			tam(e)
		}
		for j := range truth {
			if bytes.Compare(truth[j].k, f) < 0 {
				continue
			}
			h := honest(t, truth, f, j)
			em.add(h)
			tam(h)
		}
	}
}

var universe = [][]byte{{0x00}, {0x01}, {0x10}, {0x11}, {0x12}, {0x7f}, {0xf0}, {0xff}}

func universeVal(i int) []byte {
	if i%3 == 0 {
		return bytes.Repeat([]byte{byte(0xa0 + i)}, 33) // forces a hashed leaf
	}
	return []byte{byte(0x50 + i), byte(i)}
}

func genUniverse(r *Rng, em *emitter, maxKeys int, sample int, ntamper int) {
	for mask := 0; mask < 256; mask++ {
		var kvs []kv
		for i := 0; i < 8; i++ {
			if mask>>uint(i)&1 == 1 {
				kvs = append(kvs, kv{universe[i], universeVal(i)})
			}
		}
		if len(kvs) > maxKeys {
			continue
		}
		if sample > 0 && r.Intn(sample) != 0 {
			continue
		}
		t, truth := build(kvs)
		em.tr = kvsSx(kvs)
		allBoundaries(r, em, t, truth, 1, universe, ntamper, nil, nil)
		em.flush()
	}
}


// ---------------------------------------------------------------- hand-made proof nodes

func compact(hex []byte, term bool) []byte {
	flag := byte(0)
	if term {
		flag = 0x20
	}
	var out []byte
	if len(hex)%2 == 1 {
		out = []byte{flag | 0x10 | hex[0]}
		hex = hex[1:]
	} else {
		out = []byte{flag}
	}
	for i := 0; i+1 < len(hex); i += 2 {
		out = append(out, hex[i]<<4|hex[i+1])
	}
	return out
}

func rlpEnc(v interface{}) []byte {
	b, err := rlp.EncodeToBytes(v)
	if err != nil {
		panic("hxlib: rlp: " + err.Error())
	}
	return b
}

// ref: how a parent refers to the node with encoding enc (embedded when short)
func ref(enc []byte) interface{} {
	if len(enc) < 32 {
		return rlp.RawValue(enc)
	}
	return crypto.Keccak256(enc)
}

func nibbles(k []byte) []byte {
	var out []byte
	for _, b := range k {
		out = append(out, b>>4, b&15)
	}
	return out
}

func fullNode(children map[int]interface{}, val []byte) []byte {
	l := make([]interface{}, 17)
	for i := range l {
		l[i] = []byte{}
	}
	for i, c := range children {
		l[i] = c
	}
	l[16] = val
	return rlpEnc(l)
}

// genCrafted emits cases whose proof sets contain nodes no trie produces: they exercise the
// explicit panic / bad-node classes of the model against the real code (no oracle).
func genCrafted(r *Rng, emit func(Sx), n int) {
	for ci := 0; ci < n; ci++ {
		k1 := []byte{byte(r.Intn(4)) << 4, byte(r.Intn(3))}
		k2 := append([]byte{}, k1...)
		k2[1] += 1 + byte(r.Intn(3))
		val := r.Bytes(1 + r.Intn(40))
		var blobs [][]byte
		var root []byte
		switch ci % 8 {
		case 0: // a leaf with an EMPTY value on the start key's path
			b := rlpEnc([]interface{}{compact(nibbles(k1), true), []byte{}})
			blobs, root = [][]byte{b}, crypto.Keccak256(b)
		case 1: // short -> short: an extension whose child is an embedded leaf
			leaf := rlpEnc([]interface{}{compact(append(nibbles(k1)[1:3], 1), true), []byte{0x07}})
			b := rlpEnc([]interface{}{compact(nibbles(k1)[:1], false), ref(leaf)})
			blobs, root = [][]byte{b}, crypto.Keccak256(b)
		case 2: // garbage under the root hash
			b := r.Bytes(1 + r.Intn(50))
			blobs, root = [][]byte{b}, crypto.Keccak256(b)
		case 3: // a branch with a single child
			leaf := rlpEnc([]interface{}{compact(nibbles(k1)[1:], true), val})
			b := fullNode(map[int]interface{}{int(nibbles(k1)[0]): ref(leaf)}, nil)
			blobs, root = [][]byte{b, leaf}, crypto.Keccak256(b)
		case 4: // nested empty-key extensions around a leaf
			var nd interface{} = []interface{}{compact(nibbles(k1), true), []byte{0x09}}
			for d := 1 + r.Intn(6); d > 0; d-- {
				nd = []interface{}{[]byte{0x00}, nd}
			}
			b := rlpEnc(nd)
			blobs, root = [][]byte{b}, crypto.Keccak256(b)
		case 5: // a branch holding a value in slot 16 next to children (prefix keys, hand-made)
			leaf := rlpEnc([]interface{}{compact(nibbles(k1)[1:], true), val})
			b := fullNode(map[int]interface{}{int(nibbles(k1)[0]): ref(leaf)}, []byte{0x55})
			blobs, root = [][]byte{b, leaf}, crypto.Keccak256(b)
		case 6: // a two-leaf trie built by hand (canonical): accepted like a genuine one
			l1 := rlpEnc([]interface{}{compact(nibbles(k1)[3:], true), val})
			l2 := rlpEnc([]interface{}{compact(nibbles(k2)[3:], true), []byte{0x33}})
			br := fullNode(map[int]interface{}{int(nibbles(k1)[3-1]): ref(l1), int(nibbles(k2)[3-1]): ref(l2)}, nil)
			b := rlpEnc([]interface{}{compact(nibbles(k1)[:2], false), ref(br)})
			blobs, root = [][]byte{b, br, l1, l2}, crypto.Keccak256(b)
		default: // an extension with an empty key above a leaf, hash-linked
			leaf := rlpEnc([]interface{}{compact(nibbles(k1), true), r.Bytes(33)})
			b := rlpEnc([]interface{}{[]byte{0x00}, crypto.Keccak256(leaf)})
			blobs, root = [][]byte{b, leaf}, crypto.Keccak256(b)
		}
		var qs SL
		add := func(first []byte, keys, vals [][]byte) {
			qs = append(qs, resp{root: root, first: first, keys: keys, vals: vals, proof: blobs}.sx())
		}
		add(k1, nil, nil)
		add(k2, nil, nil)
		add([]byte{0xff, 0xff}, nil, nil)
		add(k1, [][]byte{k1}, [][]byte{val})
		add(k1, [][]byte{k1}, [][]byte{{0x09}})
		add(k1, [][]byte{k2}, [][]byte{{0x33}})
		add(k1, [][]byte{k1, k2}, [][]byte{val, {0x33}})
		add([]byte{0x00, 0x00}, [][]byte{k1, k2}, [][]byte{val, {0x33}})
		add([]byte{0x00, 0x00}, [][]byte{k2}, [][]byte{{0x07}})
		add(k1[:1], [][]byte{k1}, [][]byte{val})
		emit(L(SL{}, qs, I(1)))
	}
}

func gen(r *Rng, tier string, emit func(Sx)) {
	r = NewRng(r.U64())
	thorough := tier == "thorough"
	em := &emitter{emit: emit, max: 40}

	// (1) tries over the 8-key universe: exhaustive up to 5 keys with all single tamperings
	// (thorough) / all tries up to 2 keys plus a sample of the larger ones (quick)
	if thorough {
		genUniverse(r, em, 5, 0, -1)
	} else {
		genUniverse(r, em, 2, 0, -1)
		genUniverse(r, em, 5, 12, 3)
	}

	// (2) small random tries (<= 8 keys): all run boundaries, sampled tamperings
	nsmall, nbig := 10, 36
	if thorough {
		nsmall, nbig = 300, 1200
	}
	for ci := 0; ci < nsmall; ci++ {
		style := []int{0, 1, 2, 3, 4, 1, 0}[ci%7]
		n := 1 + r.Intn(8)
		var kvs []kv
		for i := 0; i < n; i++ {
			kvs = append(kvs, kv{genKey(r, style), genVal(r)})
		}
		t, truth := build(kvs)
		var okvs []kv
		for i := 0; i < 3; i++ {
			okvs = append(okvs, kv{genKey(r, style), genVal(r)})
		}
		other, otherTruth := build(okvs)
		var cands [][]byte
		for i := 0; i < 2; i++ {
			cands = append(cands, genKey(r, style))
		}
		if e := truth[r.Intn(len(truth))]; inc(e.k) != nil {
			cands = append(cands, inc(e.k))
		}
		em.tr = kvsSx(kvs)
		nt := 1
		if thorough {
			nt = 4
		}
		allBoundaries(r, em, t, truth, len(truth[0].k), cands, nt, other, otherTruth)
		em.flush()
	}

	// (3) larger random tries incl. single-entry and dense ones: random runs and tamperings
	for ci := 0; ci < nbig; ci++ {
		style := []int{0, 1, 3, 4, 0, 1, 2, 5}[ci%8]
		sizes := []int{1, 2, 3, 9, 16, 30, 60, 120}
		n := sizes[r.Intn(len(sizes))]
		var kvs []kv
		for i := 0; i < n; i++ {
			kvs = append(kvs, kv{genKey(r, style), genVal(r)})
		}
		t, truth := build(kvs)
		var okvs []kv
		for i := 0; i < 4; i++ {
			okvs = append(okvs, kv{genKey(r, style), genVal(r)})
		}
		other, otherTruth := build(okvs)
		em.tr = kvsSx(kvs)
		klen := len(truth[0].k)
		sk := startKeys(truth, klen)
		em.add(whole(t, truth))
		if ci%12 == 5 { // recorded finding C09-empty-key-noproof-panic, at a modest rate
			em.add(resp{root: t.Hash().Bytes(), nilProof: true, keys: [][]byte{{}}, vals: [][]byte{{0x01}}})
		}
		nruns := 6
		for i := 0; i < nruns; i++ {
			var f []byte
			switch r.Intn(4) {
			case 0:
				f = truth[r.Intn(len(truth))].k
			case 1:
				f = genKey(r, style)
			default:
				f = sk[r.Intn(len(sk))]
			}
			j := -1
			if !r.Chance(1, 6) {
				// a last entry at or after f, usually close to it
				lo := sort.Search(len(truth), func(i int) bool { return bytes.Compare(truth[i].k, f) >= 0 })
				if lo < len(truth) {
					j = lo + r.Intn(min(len(truth)-lo, 1+r.Intn(12)))
				}
			}
			h := honest(t, truth, f, j)
			em.add(h)
			cands := [][]byte{genKey(r, style), genKey(r, style)}
			if len(h.keys) > 0 {
				if x := inc(h.keys[r.Intn(len(h.keys))]); x != nil {
					cands = append(cands, x)
				}
			}
			all := tamperAll(t, truth, h, cands, other, otherTruth)
			for k := 0; k < 4 && len(all) > 0; k++ {
				em.add(all[r.Intn(len(all))])
			}
		}
		em.flush()
	}

	// (4) hand-made proof nodes (model vs implementation only)
	ncraft := 48
	if thorough {
		ncraft = 800
	}
	genCrafted(r, emit, ncraft)
}

func main() {
	Main(Family{
		ID: "C09",
		Rule: "each case is one trie and up to 40 range-proof queries (rootHash, firstKey, keys, values, proof set | nil) answered by trie.VerifyRangeProof. " +
			"Tries: (1) all subsets of an 8-key one-byte universe {00,01,10,11,12,7f,f0,ff} (values 2 or 33 bytes: embedded and hashed leaves) up to 5 keys " +
			"[thorough: all 219 tries x every run x every single tampering; quick: all tries up to 2 keys with every tampering plus a 1/12 sample of the rest]; " +
			"(2) random tries of 1-8 keys (random 32-byte keys as snap uses, 32-byte keys sharing 29+ byte prefixes, 1/2/3-byte keys over small alphabets) with EVERY run boundary: " +
			"start key = each key, its successor and predecessor, the zero key, the all-0xff key; last entry = each entry at or after it; every honest empty run; the whole trie without proof; " +
			"(3) random tries of 1-120 keys (the same styles plus mixed-length keys where keys are prefixes of others) with random runs. " +
			"Honest responses carry the genuine Prove() nodes of the start key and of the last key; each is followed by tamperings: drop / duplicate / reorder / inject (sorted and unsorted) / re-key entries, inject an (absent key, empty value) pair at position 0 / middle / end with its own proof, " +
			"alter / lengthen / empty a value, swap two values, claim a shorter run, keys-values length mismatch, drop or damage each proof node, one edge proof only, truncated edge proofs, proofs of other keys, " +
			"nil proof for a partial run, empty proof set, start key moved (with and without an honest proof of the new one), start key moved below an omitted entry, proof set bloated with another trie's nodes, another trie's root, damaged root. " +
			"(4) hand-made proof nodes no trie produces (leaf with empty value, extension over an embedded leaf, garbage root, single-child branch, nested empty-key extensions, branch value next to children, hash-linked empty-key extension): model vs implementation only, no oracle. " +
			"Observables: (more, error class 0-17; 17 = panic). Oracle (on the implementation alone): accepted => the run equals the trie's contents over [firstKey, lastKey] (whole trie without proof; nothing at or after firstKey for an empty run) and more <=> entries beyond the last key; " +
			"honest responses over fixed-length-key tries are accepted; no panic. Non-trivial: a trie with >= 2 keys, at least one accepted and one rejected query in the case.",
		Gen: gen,
		Run: run,
	})
}
