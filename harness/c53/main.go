// Family c53: the beacon light client committee chain (beacon/light/committee_chain.go,
// beacon/types/light_sync.go, beacon/merkle/merkle.go, light/head_tracker.go) vs
// coq/Light/Committee.v.
//
// Cases are SYMBOLIC: 32-byte values are terms (atom n | literal bytes | (0 c) =
// root of dummy committee c | (1 l r) = SHA-256(l||r)).  Run maps every term to real
// bytes and drives a real light.CommitteeChain (dummy test verifier, memory DB,
// simulated clock) and a real light.HeadTracker; the Coq model runs on the terms.
package main

import (
	"crypto/sha256"
	"encoding/binary"
	"errors"
	"fmt"
	"math/bits"
	"sort"
	"strings"
	"time"

	. "gethverif/harness/hxlib"
	"github.com/ethereum/go-ethereum/beacon/light"
	"github.com/ethereum/go-ethereum/beacon/merkle"
	"github.com/ethereum/go-ethereum/beacon/params"
	"github.com/ethereum/go-ethereum/beacon/types"
	"github.com/ethereum/go-ethereum/common"
	"github.com/ethereum/go-ethereum/common/mclock"
	"github.com/ethereum/go-ethereum/ethdb/memorydb"
)

// ---------------------------------------------------------------- concretisation

type conc struct {
	memo map[string][32]byte
	rev  map[[32]byte]Sx
}

func newConc() *conc { return &conc{memo: map[string][32]byte{}, rev: map[[32]byte]Sx{}} }

func shape(format string, a ...any) { panic("hxlib: " + fmt.Sprintf(format, a...)) }

func committee(c uint64) *types.SerializedSyncCommittee {
	s := new(types.SerializedSyncCommittee)
	binary.BigEndian.PutUint64(s[:8], c)
	s[8] = 0xc5
	return s
}

func committeeID(s *types.SerializedSyncCommittee) (uint64, bool) {
	id := binary.BigEndian.Uint64(s[:8])
	return id, *s == *committee(id)
}

var rootMemo = map[uint64][32]byte{}

func committeeRoot(c uint64) [32]byte {
	if r, ok := rootMemo[c]; ok {
		return r
	}
	r := [32]byte(committee(c).Root())
	rootMemo[c] = r
	return r
}

func (k *conc) hash(t Sx) [32]byte {
	key := String(t)
	if v, ok := k.memo[key]; ok {
		return v
	}
	var out [32]byte
	switch v := t.(type) {
	case SI:
		var buf [16]byte
		copy(buf[:8], "c53-atom")
		binary.BigEndian.PutUint64(buf[8:], v.V.Uint64())
		out = sha256.Sum256(buf[:])
	case SB:
		if len(v) != 32 {
			shape("literal hash of %d bytes", len(v))
		}
		copy(out[:], v)
	case SL:
		switch {
		case len(v) == 2 && AsInt(v[0]) == 0:
			out = committeeRoot(AsU64(v[1]))
		case len(v) == 3 && AsInt(v[0]) == 1:
			l, r := k.hash(v[1]), k.hash(v[2])
			out = sha256.Sum256(append(l[:], r[:]...))
		default:
			shape("bad hash term %s", key)
		}
	}
	k.memo[key] = out
	if _, ok := k.rev[out]; !ok {
		k.rev[out] = t
	}
	return out
}

// symbolic rendering of a concrete value (raw bytes if it was never produced from a term)
func (k *conc) sym(h [32]byte) Sx {
	if t, ok := k.rev[h]; ok {
		return t
	}
	return B(h[:])
}

func (k *conc) header(t Sx) types.Header {
	l := AsList(t)
	if len(l) != 5 {
		shape("header")
	}
	return types.Header{
		Slot: AsU64(l[0]), ProposerIndex: AsU64(l[1]),
		ParentRoot: k.hash(l[2]), StateRoot: k.hash(l[3]), BodyRoot: k.hash(l[4]),
	}
}

func (k *conc) branch(t Sx) merkle.Values {
	var out merkle.Values
	for _, x := range AsList(t) {
		out = append(out, merkle.Value(k.hash(x)))
	}
	return out
}

func junk(n uint64) (sig [96]byte) {
	for i := 0; i < 3; i++ {
		var buf [17]byte
		copy(buf[:8], "c53-junk")
		binary.BigEndian.PutUint64(buf[8:], n)
		buf[16] = byte(i)
		h := sha256.Sum256(buf[:])
		copy(sig[i*32:], h[:])
	}
	return
}

func bits64(t Sx) (out [64]byte) {
	b := AsBytes(t)
	if len(b) != 64 {
		shape("bitmask of %d bytes", len(b))
	}
	copy(out[:], b)
	return
}

func (k *conc) signed(cfg *params.ChainConfig, t Sx) types.SignedHeader {
	l := AsList(t)
	if len(l) != 4 {
		shape("signed header")
	}
	h := k.header(l[0])
	sh := types.SignedHeader{Header: h, SignatureSlot: AsU64(l[3])}
	sh.Signature.Signers = bits64(l[1])
	sg := AsList(l[2])
	switch AsInt(sg[0]) {
	case 0:
		root, err := cfg.Forks.SigningRoot(h.Epoch(), h.Hash())
		if err != nil {
			sh.Signature.Signature = junk(0)
		} else {
			sh.Signature.Signature = light.VerifMakeDummySignature(committee(AsU64(sg[1])), root, bits64(sg[2]))
		}
	case 1:
		sh.Signature.Signature = light.VerifMakeDummySignature(committee(AsU64(sg[1])), k.hash(sg[3]), bits64(sg[2]))
	case 2:
		sh.Signature.Signature = junk(AsU64(sg[1]))
	default:
		shape("signature kind")
	}
	return sh
}

func version(old Sx) string {
	if AsBool(old) {
		return "deneb"
	}
	return ""
}

func (k *conc) update(cfg *params.ChainConfig, t Sx) *types.LightClientUpdate {
	l := AsList(t)
	if len(l) != 6 {
		shape("update")
	}
	u := &types.LightClientUpdate{
		Version:                 version(l[0]),
		AttestedHeader:          k.signed(cfg, l[1]),
		NextSyncCommitteeRoot:   k.hash(l[2]),
		NextSyncCommitteeBranch: k.branch(l[3]),
		FinalityBranch:          k.branch(l[5]),
	}
	if f := AsList(l[4]); len(f) == 1 {
		fh := k.header(f[0])
		u.FinalizedHeader = &fh
	} else if len(f) != 0 {
		shape("finalized header option")
	}
	return u
}

// ---------------------------------------------------------------- error classes

func merkleSub(msg string) int {
	switch {
	case strings.HasSuffix(msg, "branch has extra items"):
		return 0
	case strings.HasSuffix(msg, "branch is missing items"):
		return 1
	case strings.HasSuffix(msg, "root mismatch"):
		return 2
	}
	return 99
}

func chainErr(err error) int {
	switch {
	case err == nil:
		return 0
	case errors.Is(err, light.ErrNeedCommittee):
		return 1
	case errors.Is(err, light.ErrInvalidUpdate):
		return 2
	case errors.Is(err, light.ErrInvalidPeriod):
		return 3
	case errors.Is(err, light.ErrWrongCommitteeRoot):
		return 4
	case errors.Is(err, light.ErrCannotReorg):
		return 5
	}
	return 6
}

func validateErr(err error) int {
	if err == nil {
		return 0
	}
	m := err.Error()
	switch {
	case m == "signature slot and signed header are from different periods":
		return 10
	case m == "finalized header is from different period":
		return 11
	case strings.HasPrefix(m, "invalid finalized header proof: "):
		return 12 + merkleSub(m)
	case strings.HasPrefix(m, "invalid next sync committee proof: "):
		return 15 + merkleSub(m)
	}
	return 99
}

func bootErr(err error) int {
	if c := chainErr(err); c != 6 {
		return c
	}
	m := err.Error()
	if m == "wrong committee root" {
		return 20
	}
	if s := merkleSub(m); s != 99 {
		return 21 + s
	}
	return 6
}

// ---------------------------------------------------------------- the run

const genuineBase = 1000 // the genuine committee of period p is committee number 1000+p

var payloadHeader *types.ExecutionHeader

func init() {
	var err error
	payloadHeader, err = types.ExecutionHeaderFromJSON("deneb", []byte(`{}`))
	if err != nil {
		panic(err)
	}
}

type world struct {
	k         *conc
	cfg       *params.ChainConfig
	threshold int
	chain     *light.CommitteeChain
	ht        *light.HeadTracker
	clock     *mclock.Simulated
	trusted   map[common.Hash]bool
	ever      map[uint64]map[uint64]bool // period -> committee numbers the chain has ever stored there
}

func (w *world) setClock(now int64) {
	cur := int64(w.clock.Now())
	if now < cur {
		shape("clock going backwards")
	}
	w.clock.Run(time.Duration(now - cur))
}

func (w *world) dump() Sx {
	fs, fe, cs, ce, us, ue := w.chain.VerifRanges()
	var fx, cm, up SL
	fx, cm, up = SL{}, SL{}, SL{}
	for p := fs; p < fe; p++ {
		if r, ok := w.chain.VerifFixedRoot(p); ok {
			fx = append(fx, w.k.sym(r))
		} else {
			fx = append(fx, L())
		}
	}
	for p := cs; p < ce; p++ {
		if c, ok := w.chain.VerifCommittee(p); ok {
			id, exact := committeeID(c)
			if !exact {
				cm = append(cm, B(c[:64]))
			} else {
				cm = append(cm, U(id))
			}
		} else {
			cm = append(cm, L())
		}
	}
	for p := us; p < ue; p++ {
		if u, ok := w.chain.VerifUpdate(p); ok {
			up = append(up, L(U(u.AttestedHeader.Header.Slot), I(int64(u.AttestedHeader.Signature.SignerCount())),
				Bool(u.FinalizedHeader != nil), w.k.sym(u.NextSyncCommitteeRoot)))
		} else {
			up = append(up, L())
		}
	}
	return L(L(U(fs), U(fe)), L(U(cs), U(ce)), L(U(us), U(ue)), fx, cm, up)
}

// ranges of a rendered dump
func rangesOf(d string) (fs, fe, cs, ce, us, ue uint64) {
	x, err := Parse(d)
	if err != nil {
		return
	}
	l := AsList(x)
	f, c, u := AsList(l[0]), AsList(l[1]), AsList(l[2])
	return AsU64(f[0]), AsU64(f[1]), AsU64(c[0]), AsU64(c[1]), AsU64(u[0]), AsU64(u[1])
}

func popcount(b [64]byte) int {
	n := 0
	for _, x := range b {
		n += bits.OnesCount8(x)
	}
	return n
}

// genuinely signed: the aggregate is exactly the dummy signature of committee c over
// the real signing root of the header, with the bitmask carried by the header
func (w *world) signedBy(c uint64, sh types.SignedHeader) bool {
	root, err := w.cfg.Forks.SigningRoot(sh.Header.Epoch(), sh.Header.Hash())
	if err != nil {
		return false
	}
	return sh.Signature.Signature == light.VerifMakeDummySignature(committee(c), root, sh.Signature.Signers)
}

// oracle evaluated on the implementation state after every operation
// probe oracle, the property stated directly on VerifySignedHeader: for every period p
// around everything the chain has ever covered and every committee X that was ever stored
// at p (plus the genuine one), a full-participation header of period p signed by X is
// accepted ONLY IF X is the committee the chain stores for p NOW.  In particular headers
// of periods outside the committee range, or signed by a rolled-back committee, are
// rejected.  The probes run after every operation, so the chain's deserialized-committee
// cache is warm before any rollback.
func (w *world) probe() []string {
	var fails []string
	_, _, cs, ce, _, _ := w.chain.VerifRanges()
	for p := cs; p < ce; p++ {
		if c, ok := w.chain.VerifCommittee(p); ok {
			if id, exact := committeeID(c); exact {
				if w.ever[p] == nil {
					w.ever[p] = map[uint64]bool{}
				}
				w.ever[p][id] = true
			}
		}
	}
	lo, hi, first := uint64(0), uint64(0), true
	for p := range w.ever {
		if first || p < lo {
			lo = p
		}
		if first || p > hi {
			hi = p
		}
		first = false
	}
	if first {
		lo, hi = 0, 1
	}
	if lo > 0 {
		lo--
	}
	var signers [64]byte
	for i := range signers {
		signers[i] = 0xff
	}
	for p := lo; p <= hi+2; p++ {
		cands := map[uint64]bool{genuineBase + p: true}
		for id := range w.ever[p] {
			cands[id] = true
		}
		var stored *types.SerializedSyncCommittee
		if p >= cs && p < ce {
			stored, _ = w.chain.VerifCommittee(p)
		}
		for id := range cands {
			h := types.Header{Slot: p*params.SyncPeriodLength + 17, ProposerIndex: id, StateRoot: common.Hash{1}}
			root, err := w.cfg.Forks.SigningRoot(h.Epoch(), h.Hash())
			if err != nil {
				continue
			}
			sh := types.SignedHeader{Header: h, SignatureSlot: h.Slot + 1}
			sh.Signature.Signers = signers
			sh.Signature.Signature = light.VerifMakeDummySignature(committee(id), root, signers)
			ok, _, _ := w.chain.VerifySignedHeader(sh)
			if ok && (stored == nil || *stored != *committee(id)) {
				what := "no committee is stored for that period"
				if stored != nil {
					sid, _ := committeeID(stored)
					what = fmt.Sprintf("the chain stores committee #%d there", sid)
				}
				fails = append(fails, fmt.Sprintf("VerifySignedHeader accepts a header of period %d signed by committee #%d, but %s", p, id, what))
			}
		}
	}
	sort.Strings(fails)
	return fails
}

func (w *world) oracle(mode int) []string {
	var fails []string
	fs, fe, cs, ce, us, ue := w.chain.VerifRanges()
	rootAt := func(p uint64) (common.Hash, bool) { // fixed root or proven by the previous update
		if p >= fs && p < fe {
			if r, ok := w.chain.VerifFixedRoot(p); ok {
				return r, true
			}
		}
		if p > 0 && p-1 >= us && p-1 < ue {
			if u, ok := w.chain.VerifUpdate(p - 1); ok {
				return u.NextSyncCommitteeRoot, true
			}
		}
		return common.Hash{}, false
	}
	for p := cs; p < ce; p++ {
		c, ok := w.chain.VerifCommittee(p)
		if !ok {
			fails = append(fails, fmt.Sprintf("committee %d in range but missing", p))
			continue
		}
		if mode == 0 && *c != *committee(genuineBase + p) {
			id, _ := committeeID(c)
			fails = append(fails, fmt.Sprintf("committee stored at period %d is #%d, not the genuine one", p, id))
		}
		if r, ok := rootAt(p); !ok || r != c.Root() {
			fails = append(fails, fmt.Sprintf("committee at period %d is neither fixed nor proven by an update", p))
		}
	}
	for p := fs; p < fe; p++ {
		r, ok := w.chain.VerifFixedRoot(p)
		if mode == 0 && ok && r != (common.Hash{}) && r != common.Hash(committeeRoot(genuineBase+p)) {
			fails = append(fails, fmt.Sprintf("fixed root at period %d is not the genuine committee root", p))
		}
	}
	for p := us; p < ue; p++ {
		u, ok := w.chain.VerifUpdate(p)
		if !ok {
			fails = append(fails, fmt.Sprintf("update %d in range but missing", p))
			continue
		}
		if mode == 0 && u.NextSyncCommitteeRoot != common.Hash(committeeRoot(genuineBase+p+1)) {
			fails = append(fails, fmt.Sprintf("update stored at period %d proves a non-genuine next committee", p))
		}
		if u.AttestedHeader.Header.SyncPeriod() != p {
			fails = append(fails, fmt.Sprintf("update stored at period %d has a header of another period", p))
		}
		if types.SyncPeriod(u.AttestedHeader.SignatureSlot) != p {
			fails = append(fails, fmt.Sprintf("update stored at period %d was signed in another period (by another committee)", p))
		}
		c, okc := w.chain.VerifCommittee(p)
		if _, okn := w.chain.VerifCommittee(p + 1); !okc || !okn {
			fails = append(fails, fmt.Sprintf("update at period %d without committees at %d and %d", p, p, p+1))
		}
		if okc {
			id, exact := committeeID(c)
			if !exact || !w.signedBy(id, u.AttestedHeader) {
				fails = append(fails, fmt.Sprintf("update stored at period %d is not signed by the stored committee", p))
			}
		}
		n := u.AttestedHeader.Signature.SignerCount()
		if n < w.threshold && !(u.FinalizedHeader != nil && n >= params.SyncCommitteeSupermajority) {
			fails = append(fails, fmt.Sprintf("update stored at period %d has only %d signers", p, n))
		}
		if u.Validate() != nil {
			fails = append(fails, fmt.Sprintf("update stored at period %d does not pass Validate", p))
		}
		if p+1 >= fs && p+1 < fe {
			if r, ok := w.chain.VerifFixedRoot(p + 1); ok && r != u.NextSyncCommitteeRoot {
				fails = append(fails, fmt.Sprintf("update at period %d contradicts the fixed root at %d", p, p+1))
			}
		}
	}
	return fails
}

func run(c Sx) Result {
	top := AsList(c)
	if len(top) != 3 {
		shape("case")
	}
	mode := AsInt(top[0])
	cl := AsList(top[1])
	if len(cl) != 5 {
		shape("cfg")
	}
	k := newConc()
	w := &world{k: k, threshold: AsInt(cl[0]), trusted: map[common.Hash]bool{}, ever: map[uint64]map[uint64]bool{}}
	w.cfg = &params.ChainConfig{GenesisTime: AsU64(cl[2])}
	for _, f := range AsList(cl[3]) {
		fl := AsList(f)
		if len(fl) != 3 {
			shape("fork")
		}
		w.cfg.AddFork("", AsU64(fl[0]), AsBytes(fl[2]))
	}
	// the case carries the domains as literals; they must be the ones the real code computes
	for i, f := range AsList(cl[3]) {
		h := w.cfg.Forks[i]
		want, err := w.cfg.Forks.SigningRoot(h.Epoch, common.Hash{})
		d := k.hash(AsList(f)[1])
		got := sha256.Sum256(append(make([]byte, 32), d[:]...))
		if err != nil || h.Epoch != AsU64(AsList(f)[0]) || common.Hash(got) != want {
			shape("fork domain in the case differs from the computed one")
		}
	}
	for _, t := range AsList(cl[4]) {
		w.trusted[k.hash(t)] = true
	}
	w.clock = new(mclock.Simulated)
	w.chain = light.NewTestCommitteeChain(memorydb.New(), w.cfg, w.threshold, AsBool(cl[1]), w.clock)
	w.ht = light.NewHeadTracker(w.chain, w.threshold, nil)

	res := Result{}
	var obs SL
	var fails []string
	tags := map[string]bool{}
	accepted, rejected := 0, 0
	prev := String(w.dump())
	for i, opx := range AsList(top[2]) {
		op := AsList(opx)
		code := 0
		switch AsInt(op[0]) {
		case 0: // bootstrap delivery: light/api GetCheckpointData composition, then CheckpointInit
			w.setClock(AsBig(op[1]).Int64())
			bl := AsList(op[2])
			if len(bl) != 5 {
				shape("bootstrap")
			}
			b := types.BootstrapData{
				Version: version(bl[0]), Header: k.header(bl[1]), CommitteeRoot: k.hash(bl[2]),
				Committee: committee(AsU64(bl[3])), CommitteeBranch: k.branch(bl[4]),
			}
			if !w.trusted[b.Header.Hash()] {
				code = 24
			} else {
				code = bootErr(w.chain.CheckpointInit(b))
			}
			tags[fmt.Sprintf("boot%d", code)] = true
		case 1: // update delivery: Validate, then InsertUpdate
			w.setClock(AsBig(op[1]).Int64())
			forged := AsBool(op[2])
			u := k.update(w.cfg, op[3])
			var nc *types.SerializedSyncCommittee
			if l := AsList(op[4]); len(l) == 1 {
				nc = committee(AsU64(l[0]))
			}
			if err := u.Validate(); err != nil {
				code = validateErr(err)
			} else {
				code = chainErr(w.chain.InsertUpdate(u, nc))
			}
			now := String(w.dump())
			if code == 0 && now != prev {
				accepted++
				if forged {
					fails = append(fails, fmt.Sprintf("op %d: forged update accepted", i))
				}
			}
			if code != 0 {
				rejected++
			}
			tags[fmt.Sprintf("upd%d", code)] = true
		case 2: // signed head through the real HeadTracker (payload proof always valid)
			w.setClock(AsBig(op[1]).Int64())
			sh := k.signed(w.cfg, op[2])
			ou := types.OptimisticUpdate{
				Attested:      types.HeaderWithExecProof{Header: sh.Header, PayloadHeader: payloadHeader, PayloadBranch: k.branch(op[3])},
				Signature:     sh.Signature,
				SignatureSlot: sh.SignatureSlot,
			}
			replace, err := w.ht.ValidateOptimistic(ou)
			switch {
			case replace:
				code = 0
			case err == nil:
				code = 2
			case err.Error() == "low signer count":
				code = 1
			case err.Error() == "invalid header signature":
				code = 4
			case strings.HasPrefix(err.Error(), "missing serialized sync committee"):
				code = 3
			default:
				code = 9
			}
			if replace {
				// the property: accepted only if signed by >= threshold of the genuine committee of its period
				p := types.SyncPeriod(sh.SignatureSlot)
				signer := genuineBase + p
				if mode != 0 {
					if cm, ok := w.chain.VerifCommittee(p); ok {
						signer, _ = committeeID(cm)
					}
				}
				if !w.signedBy(signer, sh) || popcount(sh.Signature.Signers) < w.threshold {
					fails = append(fails, fmt.Sprintf("op %d: head accepted without a threshold signature of the committee of period %d", i, p))
				}
			}
			tags[fmt.Sprintf("head%d", code)] = true
		case 3:
			code = chainErr(w.chain.VerifAddFixedCommitteeRoot(AsU64(op[1]), k.hash(op[2])))
			tags[fmt.Sprintf("fix%d", code)] = true
		case 4:
			code = chainErr(w.chain.VerifAddCommittee(AsU64(op[1]), committee(AsU64(op[2]))))
			tags[fmt.Sprintf("addc%d", code)] = true
		default:
			shape("op kind")
		}
		_, fe0, _, ce0, _, ue0 := rangesOf(prev)
		d := w.dump()
		prev = String(d)
		if _, fe1, _, ce1, _, ue1 := rangesOf(prev); fe1 < fe0 || ce1 < ce0 || ue1 < ue0 {
			tags["rollback"] = true
		}
		obs = append(obs, L(I(int64(code)), d))
		for _, f := range w.oracle(mode) {
			fails = append(fails, fmt.Sprintf("after op %d: %s", i, f))
		}
		for _, f := range w.probe() {
			fails = append(fails, fmt.Sprintf("after op %d: %s", i, f))
		}
	}
	if obs == nil {
		obs = SL{}
	}
	res.Obs = obs
	if len(fails) > 0 {
		if len(fails) > 4 {
			fails = fails[:4]
		}
		res.Oracle = strings.Join(fails, "; ")
	}
	for t := range tags {
		res.Tags = append(res.Tags, t)
	}
	res.Tags = append(res.Tags, fmt.Sprintf("mode%d", mode))
	res.NonTrivial = accepted >= 2 && rejected >= 1
	return res
}

// ---------------------------------------------------------------- generation

type gen struct {
	r       *Rng
	atom    uint64
	cfgGo   *params.ChainConfig
	forks   SL
	genesis uint64
}

func (g *gen) fresh() Sx { g.atom++; return U(g.atom) }

func lit64(n uint64) Sx {
	var b [32]byte
	binary.LittleEndian.PutUint64(b[:8], n)
	return B(b[:])
}

var zeroT = B(make([]byte, 32))

func nd(l, r Sx) Sx  { return L(I(1), l, r) }
func cr(c uint64) Sx { return L(I(0), U(c)) }
func hdr(slot, prop uint64, parent, state, body Sx) Sx {
	return L(U(slot), U(prop), parent, state, body)
}
func hdrHash(h Sx) Sx {
	l := AsList(h)
	return nd(nd(nd(lit64(AsU64(l[0])), lit64(AsU64(l[1]))), nd(l[2], l[3])), nd(nd(l[4], zeroT), nd(zeroT, zeroT)))
}

// symbolic version of makeTestHeaderWithMerkleProof: root over (index, value) with fresh siblings;
// first = optional fixed first sibling
func (g *gen) prove(index uint64, value Sx, first Sx) (root Sx, branch SL) {
	branch = SL{}
	for index > 1 {
		sib := g.fresh()
		if first != nil {
			sib, first = first, nil
		}
		if index&1 == 0 {
			value = nd(value, sib)
		} else {
			value = nd(sib, value)
		}
		index >>= 1
		branch = append(branch, sib)
	}
	return value, branch
}

func blen(x uint64) int { return bits.Len64(x) }

// one tree containing v1 at generalized index i1 and v2 at i2 (neither an ancestor of the other)
func (g *gen) prove2(i1 uint64, v1 Sx, i2 uint64, v2 Sx) (root Sx, b1, b2 SL) {
	b1, b2 = SL{}, SL{}
	up := func(i uint64, v Sx, sib Sx) Sx {
		if i&1 == 0 {
			return nd(v, sib)
		}
		return nd(sib, v)
	}
	for blen(i1) > blen(i2) {
		s := g.fresh()
		v1, b1, i1 = up(i1, v1, s), append(b1, s), i1>>1
	}
	for blen(i2) > blen(i1) {
		s := g.fresh()
		v2, b2, i2 = up(i2, v2, s), append(b2, s), i2>>1
	}
	for i1 != i2 {
		if i1^1 == i2 {
			b1, b2 = append(b1, v2), append(b2, v1)
			v1 = up(i1, v1, v2)
			v2, i1 = v1, i1>>1
			i2 = i1
			break
		}
		s1, s2 := g.fresh(), g.fresh()
		v1, b1, i1 = up(i1, v1, s1), append(b1, s1), i1>>1
		v2, b2, i2 = up(i2, v2, s2), append(b2, s2), i2>>1
	}
	for i1 > 1 {
		s := g.fresh()
		v1, b1, b2, i1 = up(i1, v1, s), append(b1, s), append(b2, s), i1>>1
	}
	return v1, b1, b2
}

func idxNext(old bool) uint64 {
	if old {
		return params.StateIndexNextSyncCommitteeOld
	}
	return params.StateIndexNextSyncCommitteeElectra
}
func idxSync(old bool) uint64 {
	if old {
		return params.StateIndexSyncCommitteeOld
	}
	return params.StateIndexSyncCommitteeElectra
}
func idxFinal(old bool) uint64 {
	if old {
		return params.StateIndexFinalBlockOld
	}
	return params.StateIndexFinalBlockElectra
}

func (g *gen) bitmask(n int) Sx {
	var b [64]byte
	for i := 0; i < 512; i++ {
		if g.r.Intn(512-i) < n {
			b[i/8] |= 1 << (i & 7)
			n--
		}
	}
	return B(b[:])
}

type updSpec struct {
	period    uint64
	signer    uint64 // committee number that signs
	next      uint64 // committee number proven as next
	count     int
	finalized bool
	old       bool
	slotOff   uint64
}

// symbolic GenerateTestUpdate
func (g *gen) update(s updSpec) SL {
	var att, fin Sx
	var nb, fb SL
	fin, fb = L(), SL{}
	base := s.period * params.SyncPeriodLength
	if s.finalized {
		// unlike light.GenerateTestUpdate (whose finalized updates do not pass Validate), both
		// branches are relative to the attested state, as LightClientUpdate.Validate requires
		fh := hdr(base+100+s.slotOff, uint64(g.r.Intn(1000)), g.fresh(), g.fresh(), g.fresh())
		st, b1, b2 := g.prove2(idxFinal(s.old), hdrHash(fh), idxNext(s.old), cr(s.next))
		att = hdr(base+200+s.slotOff, uint64(g.r.Intn(1000)), g.fresh(), st, g.fresh())
		fin, fb, nb = L(fh), b1, b2
	} else {
		st, b := g.prove(idxNext(s.old), cr(s.next), nil)
		att = hdr(base+2000+s.slotOff, uint64(g.r.Intn(1000)), g.fresh(), st, g.fresh())
		nb = b
	}
	bm := g.bitmask(s.count)
	signed := L(att, bm, L(I(0), U(s.signer), bm), U(AsU64(AsList(att)[0])+1))
	return SL{Bool(s.old), signed, cr(s.next), nb, fin, fb}
}

func cloneL(l SL) SL { return append(SL{}, l...) }

func (g *gen) mkcfg(threshold int, enforce bool, trusted SL) Sx {
	return L(I(int64(threshold)), Bool(enforce), U(g.genesis), g.forks, trusted)
}

func (g *gen) setupForks() {
	g.genesis = uint64(g.r.Intn(3)) * 1000
	g.cfgGo = &params.ChainConfig{GenesisTime: g.genesis}
	g.forks = SL{}
	epochs := []uint64{0}
	if g.r.Chance(1, 3) {
		epochs = append(epochs, uint64(256*g.r.Range(1, 12)))
	}
	if g.r.Chance(1, 12) {
		epochs[0] = 256 * 3 // headers before the first fork have no signing root
		if len(epochs) > 1 && epochs[1] <= epochs[0] {
			epochs = epochs[:1]
		}
	}
	for i, e := range epochs {
		g.cfgGo.AddFork("", e, []byte{byte(i)})
	}
	for i, f := range g.cfgGo.Forks {
		// domain = the value d with SigningRoot(epoch, root) = sha256(root || d); recover it from
		// the fork data the same way params.Fork.computeDomain does
		var v32, d [32]byte
		copy(v32[:], []byte{byte(i)})
		fd := sha256.Sum256(append(v32[:], make([]byte, 32)...))
		d[0] = 7
		copy(d[4:], fd[:28])
		g.forks = append(g.forks, L(U(f.Epoch), B(d[:]), B([]byte{byte(i)})))
	}
}

// nanoseconds at which slot is [lead] slots in the past
func (g *gen) nowFor(slot uint64, lead int64) int64 {
	return (int64(g.genesis)+int64(slot)*12)*1e9 + lead*12e9
}

func scenario(r *Rng, emit func(Sx)) {
	g := &gen{r: r}
	g.setupForks()
	mode := 0
	if r.Chance(1, 3) {
		mode = 1
	}
	threshold := []int{300, 342, 342, 400, 1, 512}[r.Intn(6)]
	enforce := r.Chance(1, 3)
	p0 := uint64(r.Range(0, 6))
	if r.Chance(1, 8) {
		p0 = 0
	}
	nper := uint64(r.Range(2, 6))
	old := r.Chance(1, 4)
	genuine := func(p uint64) uint64 { return genuineBase + p }
	var ops SL
	var trusted SL
	now := g.nowFor((p0+1)*params.SyncPeriodLength, 0)
	if !enforce {
		now = 0
	}
	advance := func(to int64) int64 {
		if to > now {
			now = to
		}
		return now
	}

	// bootstrap at p0 (first sibling of the sync committee leaf = next committee root)
	mkBoot := func(p uint64, cid uint64, nextcid uint64, oldv bool) (SL, Sx) {
		st, br := g.prove(idxSync(oldv), cr(cid), cr(nextcid))
		h := hdr(p*params.SyncPeriodLength+200, uint64(r.Intn(100)), g.fresh(), st, g.fresh())
		return SL{Bool(oldv), h, cr(cid), U(cid), br}, hdrHash(h)
	}
	boot, bh := mkBoot(p0, genuine(p0), genuine(p0+1), old)
	trusted = append(trusted, bh)
	// forged bootstraps before/after the real one
	forgedBoot := func() Sx {
		b := cloneL(boot)
		switch r.Intn(6) {
		case 0: // another header, not the trusted checkpoint
			fb, _ := mkBoot(p0, 5000, 5001, old)
			return fb
		case 1: // trusted header, forged committee
			b[3] = U(5000 + uint64(r.Intn(5)))
		case 2: // trusted header, forged committee and matching root
			b[2], b[3] = cr(5002), U(5002)
		case 3: // tampered branch
			br := cloneL(b[4].(SL))
			br[r.Intn(len(br))] = g.fresh()
			b[4] = br
		case 4: // truncated / extended branch
			br := cloneL(b[4].(SL))
			if r.Bool() {
				br = br[:len(br)-1]
			} else {
				br = append(br, g.fresh())
			}
			b[4] = br
		case 5: // version confusion
			b[0] = Bool(!old)
		}
		return b
	}
	if r.Chance(1, 3) {
		ops = append(ops, L(I(0), I(now), forgedBoot()))
	}
	if mode == 1 && r.Chance(1, 2) {
		// trusted setup through addFixedCommitteeRoot/addCommittee instead of a checkpoint
		n := uint64(r.Range(1, 3))
		for i := uint64(0); i < n; i++ {
			ops = append(ops, L(I(3), U(p0+i), cr(genuine(p0+i))))
		}
		if r.Chance(1, 4) {
			ops = append(ops, L(I(3), U(p0+n+1), cr(genuine(p0+n+1)))) // gap: refused
		}
		ops = append(ops, L(I(4), U(p0), U(genuine(p0))))
		if n > 1 && r.Bool() {
			ops = append(ops, L(I(4), U(p0+1), U(genuine(p0+1))))
		}
		if r.Chance(1, 3) {
			ops = append(ops, L(I(4), U(p0+1), U(5000))) // wrong root
		}
	} else {
		ops = append(ops, L(I(0), I(now), boot))
	}
	if r.Chance(1, 3) {
		ops = append(ops, L(I(0), I(now), forgedBoot()))
	}

	// genuine updates p0 .. p0+nper-1, then a delivery schedule
	type delivery struct {
		forged bool
		u      SL
		nc     Sx
		at     int64
	}
	var ds []delivery
	good := func(p uint64) updSpec {
		cnt := threshold + r.Intn(513-threshold)
		if threshold < 342 && r.Bool() {
			cnt = 342 + r.Intn(171)
		}
		fin := r.Chance(1, 3)
		if threshold > 342 && r.Chance(1, 5) {
			// UpdateScore: a finalized update with a supermajority passes the minimum score
			// even below the configured threshold
			cnt, fin = 342+r.Intn(threshold-342), true
		}
		return updSpec{period: p, signer: genuine(p), next: genuine(p + 1), count: cnt,
			finalized: fin, old: old, slotOff: uint64(r.Intn(50))}
	}
	ncOf := func(c uint64) Sx {
		if r.Chance(1, 6) {
			return L()
		}
		return L(U(c))
	}
	slotOf := func(u SL) uint64 { return AsU64(AsList(AsList(u[1])[0])[0]) }
	altFrom := p0 + 1 + uint64(r.Intn(int(nper)))
	alt := func(p uint64) uint64 { return 2000 + p }
	for p := p0; p < p0+nper; p++ {
		copies := 1
		if r.Chance(1, 3) {
			copies = 2 + r.Intn(2)
		}
		for j := 0; j < copies; j++ {
			s := good(p)
			u := g.update(s)
			ds = append(ds, delivery{false, u, ncOf(s.next), g.nowFor(slotOf(u), int64(1+r.Intn(5)))})
		}
		if mode == 1 && p+1 >= altFrom && r.Chance(2, 3) {
			// an equivocating world: the stored committee of p signs another next committee
			s := good(p)
			if p >= altFrom {
				s.signer = alt(p)
			}
			s.next = alt(p + 1)
			u := g.update(s)
			ds = append(ds, delivery{false, u, ncOf(s.next), g.nowFor(slotOf(u), int64(1+r.Intn(5)))})
		}
		// forgeries for this period
		nf := r.Intn(3)
		for j := 0; j < nf; j++ {
			s := good(p)
			at := int64(-1)
			var u SL
			nc := Sx(nil)
			forged := true
			switch r.Intn(15) {
			case 14: // header of period p signed in period p+1 by the committee of p+1
				s.signer = genuine(p + 1)
				u = g.update(s)
				sg := cloneL(u[1].(SL))
				sg[3] = U((p+1)*params.SyncPeriodLength + uint64(r.Intn(10)))
				u[1] = sg
			case 0: // too few signers
				if threshold <= 1 {
					s.count = 0
				} else {
					s.count = r.Intn(threshold)
				}
				s.finalized = s.finalized && s.count < 342
				u = g.update(s)
			case 1: // signed by a forged committee, proving a forged next committee
				s.signer, s.next = 5000+uint64(r.Intn(3)), 6000+uint64(r.Intn(3))
				u = g.update(s)
			case 2: // genuine signer id but of another period
				s.signer = genuine(p + 1 + uint64(r.Intn(2)))
				s.next = 6000
				u = g.update(s)
			case 3: // tampered next-committee branch
				u = g.update(s)
				br := cloneL(u[3].(SL))
				br[r.Intn(len(br))] = g.fresh()
				u[3] = br
			case 4: // branch too short / too long
				u = g.update(s)
				br := cloneL(u[3].(SL))
				if r.Bool() {
					br = br[:len(br)-1]
				} else {
					br = append(br, g.fresh())
				}
				u[3] = br
			case 5: // forged next root with the genuine proof
				u = g.update(s)
				u[2] = cr(6000)
				nc = L(U(6000))
			case 6: // signature slot in another period
				u = g.update(s)
				sg := cloneL(u[1].(SL))
				if r.Bool() || p == 0 {
					sg[3] = U((p+1)*params.SyncPeriodLength + uint64(r.Intn(10)))
				} else {
					sg[3] = U(p*params.SyncPeriodLength - 1 - uint64(r.Intn(10)))
				}
				u[1] = sg
			case 7: // bitmask changed after signing
				u = g.update(s)
				sg := cloneL(u[1].(SL))
				sg[1] = g.bitmask(s.count)
				if String(sg[1]) == String(AsList(sg[2])[2]) {
					sg[1] = g.bitmask(512 - s.count/2)
				}
				u[1] = sg
			case 8: // junk signature
				u = g.update(s)
				sg := cloneL(u[1].(SL))
				sg[2] = L(I(2), U(uint64(r.Intn(1000))))
				u[1] = sg
			case 9: // genuine signature of ANOTHER header transplanted onto a forged header
				gu := g.update(s)
				s.next = 6001
				u = g.update(s)
				gsg := AsList(gu[1])
				sg := cloneL(u[1].(SL))
				sg[1] = gsg[1]
				sg[2] = L(I(1), U(s.signer), gsg[1], nd(hdrHash(gsg[0]), AsList(g.forks[0])[1]))
				u[1] = sg
				nc = L(U(6001))
			case 10: // version confusion
				u = g.update(s)
				u[0] = Bool(!s.old)
			case 12: // finalized header of another period
				s.finalized = true
				u = g.update(s)
				fh := cloneL(AsList(u[4])[0].(SL))
				fh[0] = U(AsU64(fh[0]) + params.SyncPeriodLength)
				u[4] = L(fh)
			case 13: // tampered / short / long finality branch
				s.finalized = true
				u = g.update(s)
				br := cloneL(u[5].(SL))
				switch r.Intn(3) {
				case 0:
					br[r.Intn(len(br))] = g.fresh()
				case 1:
					br = br[:len(br)-1]
				default:
					br = append(br, g.fresh())
				}
				u[5] = br
			case 11: // genuine update, forged next committee handed over (only the committee is forged)
				u = g.update(s)
				forged = false
				nc = L(U(5000 + uint64(r.Intn(3))))
			}
			if nc == nil {
				nc = ncOf(s.next)
			}
			if at < 0 {
				at = g.nowFor(slotOf(u), int64(1+r.Intn(5)))
			}
			ds = append(ds, delivery{forged, u, nc, at})
		}
	}
	// order: mostly ascending by period with local shuffles, duplicates, sometimes fully random
	if r.Chance(1, 4) {
		for i := len(ds) - 1; i > 0; i-- {
			j := r.Intn(i + 1)
			ds[i], ds[j] = ds[j], ds[i]
		}
	} else {
		for i := 0; i+1 < len(ds); i++ {
			if r.Chance(1, 4) {
				ds[i], ds[i+1] = ds[i+1], ds[i]
			}
		}
	}
	if r.Chance(1, 2) && len(ds) > 0 {
		k := r.Intn(len(ds))
		ds = append(ds, ds[k])
	}
	headAt := func() {
		// a signed head in a random period of the scenario
		p := p0 + uint64(r.Intn(int(nper)+1))
		signer := genuine(p)
		cnt := threshold - 2 + r.Intn(6)
		if cnt < 0 {
			cnt = 0
		}
		if cnt > 512 || r.Bool() {
			cnt = 342 + r.Intn(171)
			if cnt < threshold {
				cnt = threshold
			}
		}
		body, pb := g.prove(params.BodyIndexExecPayload, B(payloadRootBytes()), nil)
		slot := p*params.SyncPeriodLength + uint64(r.Intn(8000))
		h := hdr(slot, uint64(r.Intn(100)), g.fresh(), g.fresh(), body)
		bm := g.bitmask(cnt)
		sig := L(I(0), U(signer), bm)
		sigslot := slot + 1 + uint64(r.Intn(3))
		switch r.Intn(8) {
		case 0:
			sig = L(I(0), U(5000), bm) // forged committee
		case 1:
			sig = L(I(2), U(7)) // junk
		case 2:
			sigslot += params.SyncPeriodLength // signature slot in the next period: another committee
		case 3:
			sig = L(I(0), U(signer), g.bitmask(cnt)) // bitmask differs from the signed one
		}
		t := advance(g.nowFor(slot, int64(r.Intn(3))))
		if enforce && r.Chance(1, 6) {
			t = now // possibly in the future relative to the clock
		}
		if !enforce {
			t = now
		}
		ops = append(ops, L(I(2), I(t), L(h, bm, sig, U(sigslot)), pb))
	}
	for _, d := range ds {
		t := now
		if enforce {
			if r.Chance(1, 8) {
				// deliver before its time: rejected as a future update, then again later
				ops = append(ops, L(I(1), I(now), Bool(d.forged), d.u, d.nc))
			}
			t = advance(d.at)
		}
		ops = append(ops, L(I(1), I(t), Bool(d.forged), d.u, d.nc))
		if r.Chance(1, 5) {
			headAt()
		}
		if mode == 1 && r.Chance(1, 10) {
			p := p0 + uint64(r.Intn(int(nper)+1))
			c := genuine(p)
			if r.Bool() {
				c = alt(p)
			}
			ops = append(ops, L(I(3), U(p), cr(c)))
		}
		if r.Chance(1, 25) {
			// re-initialisation at a later trusted checkpoint
			p := p0 + uint64(r.Intn(int(nper)))
			b2, bh2 := mkBoot(p, genuine(p), genuine(p+1), old)
			trusted = append(trusted, bh2)
			ops = append(ops, L(I(0), I(now), b2))
		}
	}
	headAt()
	emit(L(I(int64(mode)), g.mkcfg(threshold, enforce, trusted), ops))
}

func payloadRootBytes() []byte {
	r := payloadHeader.PayloadRoot()
	return r[:]
}

func genAll(r *Rng, tier string, emit func(Sx)) {
	n := 400
	if tier == "thorough" {
		n = 12000
	}
	// hxlib seeds n and n+1 give the same stream shifted by one draw: key every scenario
	// with the first draw so that different seeds give unrelated scenarios
	key := r.U64()
	for i := 0; i < n; i++ {
		scenario(NewRng(r.U64()^(key<<17|key>>47)*0xD6E8FEB86659FD93), emit)
	}
}

func main() {
	Main(Family{
		ID:   "C53",
		Rule: "each case is one scenario over a fresh light.CommitteeChain (dummy test verifier, memory DB, simulated clock) and light.HeadTracker: a trusted bootstrap (or addFixedCommitteeRoot/addCommittee setup) at a random period, forged bootstraps, then for 2-6 periods genuine updates (random signer counts, finalized or not, duplicates, better/worse scores) and forged updates of 15 classes (header signed in the next period by the next committee, finalized header of another period, bad finality branch, too few signers, forged signer committee, wrong-period signer, tampered / short / long branch, forged next root, signature slot in another period, changed bitmask, junk signature, transplanted signature, version confusion, forged next committee) delivered through Validate-then-InsertUpdate in shuffled order with gaps and re-deliveries, signed heads through HeadTracker.ValidateOptimistic, re-initialisation checkpoints; mode 1 additionally contains an equivocating alternative chain and fixed-root changes to reach the reorg/rollback paths (security oracle off, structural oracle on). Non-trivial: at least two updates accepted with a state change and at least one delivery rejected in the scenario; distinct = distinct case line.",
		Gen:  genAll,
		Run:  run,
	})
}
