// Family c26: block/transaction level state transition of go-ethereum, executed through the code of
// `evm t8n` (cmd/evm/internal/t8ntool Prestate.Apply, reached in-process through the hook package
// /repo/cmd/evm/verifc26), versus the execution specification coq/EVM/{Tx,Block}.v on top of the EVM
// core of C27.
package main

import (
	"crypto/ecdsa"
	"errors"
	"fmt"
	"math/big"
	"sort"
	"strings"
	"time"

	. "gethverif/harness/hxlib"
	"github.com/ethereum/go-ethereum/cmd/evm/verifc26"
	"github.com/ethereum/go-ethereum/common"
	"github.com/ethereum/go-ethereum/consensus/misc/eip4844"
	"github.com/ethereum/go-ethereum/core"
	"github.com/ethereum/go-ethereum/core/state"
	"github.com/ethereum/go-ethereum/core/tracing"
	"github.com/ethereum/go-ethereum/core/types"
	"github.com/ethereum/go-ethereum/core/vm"
	"github.com/ethereum/go-ethereum/crypto"
	"github.com/ethereum/go-ethereum/params"
	"github.com/holiman/uint256"
)

// ---------------------------------------------------------------------------
// rule sets

var forkNames = []string{"Cancun", "Prague", "Osaka"}

func chainConfig(fork int) *params.ChainConfig {
	z := func() *big.Int { return new(big.Int) }
	t := func() *uint64 { v := uint64(0); return &v }
	c := &params.ChainConfig{
		ChainID:        big.NewInt(1),
		HomesteadBlock: z(), EIP150Block: z(), EIP155Block: z(), EIP158Block: z(), ByzantiumBlock: z(),
		ConstantinopleBlock: z(), PetersburgBlock: z(), IstanbulBlock: z(), MuirGlacierBlock: z(),
		BerlinBlock: z(), LondonBlock: z(), TerminalTotalDifficulty: z(),
		ShanghaiTime: t(), CancunTime: t(),
		DepositContractAddress: common.HexToAddress("0x00000000219ab540356cbb839cbe05303d7705fa"),
		BlobScheduleConfig:     &params.BlobScheduleConfig{Cancun: params.DefaultCancunBlobConfig, Prague: params.DefaultPragueBlobConfig},
	}
	if fork >= 1 {
		c.PragueTime = t()
	}
	if fork >= 2 {
		c.OsakaTime = t()
	}
	return c
}

var configs = []*params.ChainConfig{chainConfig(0), chainConfig(1), chainConfig(2)}

// rule sets before Cancun, used only by the Go-side SSTORE oracle (they are not in the Coq
// specification): level -3 Berlin, -2 London, -1 Shanghai
func legacyConfig(level int) *params.ChainConfig {
	z := func() *big.Int { return new(big.Int) }
	c := &params.ChainConfig{
		ChainID:        big.NewInt(1),
		HomesteadBlock: z(), EIP150Block: z(), EIP155Block: z(), EIP158Block: z(), ByzantiumBlock: z(),
		ConstantinopleBlock: z(), PetersburgBlock: z(), IstanbulBlock: z(), MuirGlacierBlock: z(), BerlinBlock: z(),
	}
	if level >= -2 {
		c.LondonBlock = z()
	}
	if level >= -1 {
		c.TerminalTotalDifficulty = z()
		v := uint64(0)
		c.ShanghaiTime = &v
	}
	return c
}

var legacyConfigs = map[int]*params.ChainConfig{-3: legacyConfig(-3), -2: legacyConfig(-2), -1: legacyConfig(-1)}
var levelNames = map[int]string{-3: "Berlin", -2: "London", -1: "Shanghai", 0: "Cancun", 1: "Prague", 2: "Osaka"}

// ---------------------------------------------------------------------------
// case

type acct struct {
	addr    *big.Int
	balance *big.Int
	nonce   uint64
	code    []byte
	slots   [][2]*big.Int
}

type alEntry struct {
	addr *big.Int
	keys []*big.Int
}

type authc struct {
	chain     *big.Int
	addr      *big.Int
	nonce     uint64
	key       uint64   // private key that signs the tuple
	authority *big.Int // nil = the signature is made invalid
}

type txc struct {
	typ        int
	key        uint64 // private key of the sender (small integer)
	from       *big.Int
	nonce      uint64
	gas        uint64
	feecap     *big.Int
	tipcap     *big.Int
	to         *big.Int // nil = creation
	value      *big.Int
	data       []byte
	al         []alEntry
	blobfeecap *big.Int
	blobs      []*big.Int
	auths      []authc
}

type wdl struct {
	addr   *big.Int
	amount uint64
}

type bcase struct {
	debug  int
	fork   int
	env    []*big.Int // coinbase timestamp number prevrandao gaslimit chainid basefee excessblobgas blobbasefee
	beacon []byte     // nil = none
	wds    []wdl
	pre    []acct
	txs    []txc
}

func bi(s Sx) *big.Int { return AsBig(s) }

func parseCase(c Sx) bcase {
	l := AsList(c)
	if len(l) != 7 {
		panic("hxlib: case must have 7 fields")
	}
	var t bcase
	t.debug = AsInt(l[0])
	t.fork = AsInt(l[1])
	if t.fork < 0 || t.fork > 2 {
		panic("hxlib: fork out of range")
	}
	ev := AsList(l[2])
	if len(ev) != 9 {
		panic("hxlib: env must have 9 fields")
	}
	for i := 0; i < 9; i++ {
		t.env = append(t.env, bi(ev[i]))
	}
	if bl := AsList(l[3]); len(bl) == 1 {
		t.beacon = AsBytes(bl[0])
		if len(t.beacon) != 32 {
			panic("hxlib: beacon root must have 32 bytes")
		}
	} else if len(bl) != 0 {
		panic("hxlib: beacon root shape")
	}
	for _, w := range AsList(l[4]) {
		wl := AsList(w)
		t.wds = append(t.wds, wdl{bi(wl[0]), AsU64(wl[1])})
	}
	for _, a := range AsList(l[5]) {
		al := AsList(a)
		x := acct{addr: bi(al[0]), balance: bi(al[1]), nonce: AsU64(al[2]), code: AsBytes(al[3])}
		for _, s := range AsList(al[4]) {
			sl := AsList(s)
			x.slots = append(x.slots, [2]*big.Int{bi(sl[0]), bi(sl[1])})
		}
		t.pre = append(t.pre, x)
	}
	for _, x := range AsList(l[6]) {
		xl := AsList(x)
		if len(xl) != 14 {
			panic("hxlib: tx must have 14 fields")
		}
		tx := txc{typ: AsInt(xl[0]), key: AsU64(xl[1]), from: bi(xl[2]), nonce: AsU64(xl[3]), gas: AsU64(xl[4]),
			feecap: bi(xl[5]), tipcap: bi(xl[6]), value: bi(xl[8]), data: AsBytes(xl[9]), blobfeecap: bi(xl[11])}
		if tl := AsList(xl[7]); len(tl) == 1 {
			tx.to = bi(tl[0])
		} else if len(tl) != 0 {
			panic("hxlib: tx.to shape")
		}
		for _, e := range AsList(xl[10]) {
			el := AsList(e)
			en := alEntry{addr: bi(el[0])}
			for _, k := range AsList(el[1]) {
				en.keys = append(en.keys, bi(k))
			}
			tx.al = append(tx.al, en)
		}
		for _, h := range AsList(xl[12]) {
			tx.blobs = append(tx.blobs, bi(h))
		}
		for _, a := range AsList(xl[13]) {
			al := AsList(a)
			au := authc{chain: bi(al[0]), addr: bi(al[1]), nonce: AsU64(al[2]), key: AsU64(al[3])}
			if tl := AsList(al[4]); len(tl) == 1 {
				au.authority = bi(tl[0])
				if keyAddr(au.key).Cmp(au.authority) != 0 {
					panic("hxlib: authority is not the address of the tuple's key")
				}
			} else if len(tl) != 0 {
				panic("hxlib: authority shape")
			}
			if au.chain.BitLen() > 256 || au.addr.BitLen() > 160 {
				panic("hxlib: authorisation field out of range")
			}
			tx.auths = append(tx.auths, au)
		}
		if tx.typ < 0 || tx.typ > 4 {
			panic("hxlib: tx type out of range")
		}
		if tx.typ != 4 && len(tx.auths) > 0 {
			panic("hxlib: authorisations on a transaction that is not of type 4")
		}
		if tx.typ == 4 && tx.to == nil {
			panic("hxlib: set-code transaction without destination")
		}
		if tx.typ != 3 && len(tx.blobs) > 0 {
			panic("hxlib: blob hashes on a non-blob transaction")
		}
		if tx.typ == 0 && len(tx.al) > 0 {
			panic("hxlib: access list on a legacy transaction")
		}
		if tx.typ <= 1 && tx.feecap.Cmp(tx.tipcap) != 0 {
			panic("hxlib: legacy gas price must be fee cap = tip cap")
		}
		if tx.typ == 3 && tx.to == nil {
			panic("hxlib: blob transaction without destination")
		}
		if tx.gas > 1<<40 || tx.feecap.BitLen() > 200 || tx.tipcap.BitLen() > 200 || tx.value.BitLen() > 256 || tx.blobfeecap.BitLen() > 200 {
			panic("hxlib: tx field outside the generated range")
		}
		if keyAddr(tx.key).Cmp(tx.from) != 0 {
			panic("hxlib: tx.from is not the address of tx.key")
		}
		t.txs = append(t.txs, tx)
	}
	return t
}

func (t bcase) sx() Sx {
	var ev SL
	for _, e := range t.env {
		ev = append(ev, Big(e))
	}
	beacon := SL{}
	if t.beacon != nil {
		beacon = SL{B(t.beacon)}
	}
	var wds SL
	for _, w := range t.wds {
		wds = append(wds, L(Big(w.addr), U(w.amount)))
	}
	var pre SL
	for _, a := range t.pre {
		var sl SL
		for _, s := range a.slots {
			sl = append(sl, L(Big(s[0]), Big(s[1])))
		}
		pre = append(pre, L(Big(a.addr), Big(a.balance), U(a.nonce), B(a.code), sl))
	}
	var txs SL
	for _, x := range t.txs {
		to := SL{}
		if x.to != nil {
			to = SL{Big(x.to)}
		}
		var al SL
		for _, e := range x.al {
			var ks SL
			for _, k := range e.keys {
				ks = append(ks, Big(k))
			}
			al = append(al, L(Big(e.addr), ks))
		}
		var bh SL
		for _, h := range x.blobs {
			bh = append(bh, Big(h))
		}
		aus := SL{}
		for _, a := range x.auths {
			auth := SL{}
			if a.authority != nil {
				auth = SL{Big(a.authority)}
			}
			aus = append(aus, L(Big(a.chain), Big(a.addr), U(a.nonce), U(a.key), auth))
		}
		txs = append(txs, L(I(int64(x.typ)), U(x.key), Big(x.from), U(x.nonce), U(x.gas), Big(x.feecap), Big(x.tipcap),
			to, Big(x.value), B(x.data), al, Big(x.blobfeecap), bh, aus))
	}
	return L(I(int64(t.debug)), I(int64(t.fork)), ev, beacon, wds, pre, txs)
}

func addrOf(b *big.Int) common.Address  { return common.BigToAddress(b) }
func addrBig(a common.Address) *big.Int { return new(big.Int).SetBytes(a.Bytes()) }

// ---------------------------------------------------------------------------
// keys

type keyEntry struct {
	priv *ecdsa.PrivateKey
	addr *big.Int
}

var keyCache = map[uint64]keyEntry{}

func keyOf(k uint64) keyEntry {
	if e, ok := keyCache[k]; ok {
		return e
	}
	if k == 0 || k > 1<<32 {
		panic("hxlib: private key outside the generated range")
	}
	priv, err := crypto.ToECDSA(common.BigToHash(new(big.Int).SetUint64(k)).Bytes())
	if err != nil {
		panic("hxlib: bad key: " + err.Error())
	}
	e := keyEntry{priv, addrBig(crypto.PubkeyToAddress(priv.PublicKey))}
	keyCache[k] = e
	return e
}

func keyAddr(k uint64) *big.Int { return keyOf(k).addr }

// ---------------------------------------------------------------------------
// error classes

func vmErrClass(err error) int64 {
	var su *vm.ErrStackUnderflow
	var so *vm.ErrStackOverflow
	var io *vm.ErrInvalidOpCode
	switch {
	case err == nil:
		return 0
	case errors.Is(err, vm.ErrExecutionReverted):
		return 1
	case errors.Is(err, vm.ErrOutOfGas), errors.Is(err, vm.ErrGasUintOverflow):
		return 2
	case errors.As(err, &su):
		return 3
	case errors.As(err, &so):
		return 4
	case errors.Is(err, vm.ErrInvalidJump):
		return 5
	case errors.As(err, &io):
		return 6
	case errors.Is(err, vm.ErrWriteProtection):
		return 7
	case errors.Is(err, vm.ErrReturnDataOutOfBounds):
		return 8
	case errors.Is(err, vm.ErrDepth):
		return 9
	case errors.Is(err, vm.ErrInsufficientBalance):
		return 10
	case errors.Is(err, vm.ErrContractAddressCollision):
		return 11
	case errors.Is(err, vm.ErrMaxCodeSizeExceeded):
		return 12
	case errors.Is(err, vm.ErrInvalidCode):
		return 13
	case errors.Is(err, vm.ErrCodeStoreOutOfGas):
		return 14
	case errors.Is(err, vm.ErrNonceUintOverflow):
		return 15
	}
	return 16
}

const (
	teBlobGasLimit     = 19
	teTypeNotSupported = 21
	teOther            = 30
)

// ---------------------------------------------------------------------------
// running the implementation

func blockHashOracle(n uint64) common.Hash {
	return crypto.Keccak256Hash(common.BigToHash(new(big.Int).SetUint64(n)).Bytes())
}

func makeTx(t bcase, x txc) *types.Transaction {
	var to *common.Address
	if x.to != nil {
		a := addrOf(x.to)
		to = &a
	}
	var al types.AccessList
	for _, e := range x.al {
		tup := types.AccessTuple{Address: addrOf(e.addr), StorageKeys: []common.Hash{}}
		for _, k := range e.keys {
			tup.StorageKeys = append(tup.StorageKeys, common.BigToHash(k))
		}
		al = append(al, tup)
	}
	chainID := configs[t.fork].ChainID
	var inner types.TxData
	switch x.typ {
	case 0:
		inner = &types.LegacyTx{Nonce: x.nonce, GasPrice: x.feecap, Gas: x.gas, To: to, Value: x.value, Data: x.data}
	case 1:
		inner = &types.AccessListTx{ChainID: chainID, Nonce: x.nonce, GasPrice: x.feecap, Gas: x.gas, To: to, Value: x.value, Data: x.data, AccessList: al}
	case 2:
		inner = &types.DynamicFeeTx{ChainID: chainID, Nonce: x.nonce, GasTipCap: x.tipcap, GasFeeCap: x.feecap, Gas: x.gas, To: to, Value: x.value, Data: x.data, AccessList: al}
	case 4:
		auths := make([]types.SetCodeAuthorization, 0)
		for _, a := range x.auths {
			signKey := a.key
			if a.authority == nil && signKey >= 100 {
				signKey -= 100
			}
			sa, err := types.SignSetCode(keyOf(signKey).priv, types.SetCodeAuthorization{ChainID: *uint256.MustFromBig(a.chain), Address: addrOf(a.addr), Nonce: a.nonce})
			if err != nil {
				panic("hxlib: sign authorisation: " + err.Error())
			}
			if a.authority == nil && a.key >= 100 {
				// the other, high-s, signature of the same message (EIP-2: s must be at most n/2)
				n := crypto.S256().Params().N
				sa.S = *uint256.MustFromBig(new(big.Int).Sub(n, sa.S.ToBig()))
				sa.V ^= 1
			} else if a.authority == nil {
				sa.R = uint256.Int{} // r = 0: no authority can be recovered
			}
			auths = append(auths, sa)
		}
		inner = &types.SetCodeTx{ChainID: uint256.MustFromBig(chainID), Nonce: x.nonce, GasTipCap: uint256.MustFromBig(x.tipcap),
			GasFeeCap: uint256.MustFromBig(x.feecap), Gas: x.gas, To: *to, Value: uint256.MustFromBig(x.value), Data: x.data,
			AccessList: al, AuthList: auths}
	default:
		hashes := make([]common.Hash, 0)
		for _, h := range x.blobs {
			hashes = append(hashes, common.BigToHash(h))
		}
		inner = &types.BlobTx{ChainID: uint256.MustFromBig(chainID), Nonce: x.nonce, GasTipCap: uint256.MustFromBig(x.tipcap),
			GasFeeCap: uint256.MustFromBig(x.feecap), Gas: x.gas, To: *to, Value: uint256.MustFromBig(x.value), Data: x.data,
			AccessList: al, BlobFeeCap: uint256.MustFromBig(x.blobfeecap), BlobHashes: hashes}
	}
	signer := types.LatestSignerForChainID(chainID)
	tx, err := types.SignNewTx(keyOf(x.key).priv, signer, inner)
	if err != nil {
		panic("hxlib: sign: " + err.Error())
	}
	return tx
}

type rcpt struct {
	status  uint64
	class   int64 // error class of the outermost frame
	gasUsed uint64
	cum     uint64
	created common.Address
	logs    []*types.Log
	txGas   uint64
}

type blockOut struct {
	blockErr   int64
	root       common.Hash
	receipts   []rcpt
	rejected   [][2]int64
	gasUsed    uint64
	blobGas    uint64
	requests   [][]byte
	st         *state.StateDB
	steps      int
	precompile bool // a precompile other than identity was called
	maxDepth   int
	panicked   string
	selfBurn   bool     // a SELFDESTRUCT with itself as beneficiary was executed (EIP-6780 may burn its balance)
	blobGasOf  []uint64 // blob gas of every included transaction
}

const stepBudget = 3000000

type budgetExceeded struct{}

// runBlock runs the block through cmd/evm/internal/t8ntool Prestate.Apply (the code of `evm t8n`),
// reached in-process through the hook package cmd/evm/verifc26.  skip[i] = true leaves transaction i out
// (indices of the rejected transactions are reported in terms of the full list).
func runBlock(t bcase, skip map[int]bool, count bool) blockOut {
	return runBlockAt(t, skip, count, t.fork)
}

// runBlockAt: level 0..2 = the rule set of the case; level < 0 = a rule set before Cancun (block
// environment without blob gas, beacon root, withdrawals; no base fee before London; no randomness
// before the merge), used by the SSTORE oracle only.
func runBlockAt(t bcase, skip map[int]bool, count bool, level int) (out blockOut) {
	cfg := configs[t.fork]
	if level < 0 {
		cfg = legacyConfigs[level]
	}
	number := t.env[2].Uint64()
	tm := t.env[1].Uint64()
	if number == 0 {
		panic("hxlib: block number 0")
	}
	excess := t.env[7].Uint64()
	if level >= 0 {
		blobFee := eip4844.CalcBlobFee(cfg, &types.Header{Time: tm, ExcessBlobGas: &excess})
		if blobFee.Cmp(t.env[8]) != 0 {
			panic(fmt.Sprintf("hxlib: blob base fee of the case (%v) is not CalcBlobFee(excess blob gas) = %v", t.env[8], blobFee))
		}
	}
	alloc := types.GenesisAlloc{}
	for _, a := range t.pre {
		if a.balance.Sign() == 0 && a.nonce == 0 && len(a.code) == 0 {
			panic("hxlib: empty account in the pre-state (EIP-161)")
		}
		ga := types.Account{Balance: a.balance, Nonce: a.nonce, Code: a.code}
		if len(a.slots) > 0 {
			ga.Storage = map[common.Hash]common.Hash{}
			for _, s := range a.slots {
				ga.Storage[common.BigToHash(s[0])] = common.BigToHash(s[1])
			}
		}
		alloc[addrOf(a.addr)] = ga
	}
	env := verifc26.Env{
		Coinbase: addrOf(t.env[0]), Random: new(big.Int).Set(t.env[3]), GasLimit: t.env[4].Uint64(), Number: number,
		Timestamp: tm, BaseFee: new(big.Int).Set(t.env[6]), ExcessBlobGas: &excess, BlockHashes: map[uint64]common.Hash{},
	}
	for n := number - 1; n+256 >= number; n-- {
		env.BlockHashes[n] = blockHashOracle(n)
		if n == 0 {
			break
		}
	}
	if t.beacon != nil {
		h := common.BytesToHash(t.beacon)
		env.ParentBeaconBlockRoot = &h
	}
	for i, w := range t.wds {
		env.Withdrawals = append(env.Withdrawals, &types.Withdrawal{Index: uint64(i), Validator: uint64(i), Address: addrOf(w.addr), Amount: w.amount})
	}
	if level < 0 {
		env.ExcessBlobGas, env.ParentBeaconBlockRoot, env.Withdrawals = nil, nil, nil
		if level < -1 {
			env.Random = nil
		}
		if level < -2 {
			env.BaseFee = nil
		}
	}
	var txs []*types.Transaction
	var index []int // position in t.txs of the i-th transaction handed to the tool
	for i, x := range t.txs {
		if skip[i] {
			continue
		}
		txs = append(txs, makeTx(t, x))
		index = append(index, i)
	}
	// the error of the outermost frame of every included transaction, in order (system calls are
	// told apart by their sender)
	var topErrs []error
	inSystem := false
	hooks := &tracing.Hooks{
		OnEnter: func(depth int, typ byte, from, to common.Address, input []byte, gas uint64, value *big.Int) {
			if depth == 0 {
				inSystem = from == params.SystemAddress
			}
			if depth+1 > out.maxDepth {
				out.maxDepth = depth + 1
			}
			if vm.OpCode(typ) == vm.SELFDESTRUCT && from == to {
				out.selfBurn = true
			}
			if vm.OpCode(typ) != vm.SELFDESTRUCT {
				if p := to.Big(); p.BitLen() <= 9 && p.Sign() > 0 && p.Uint64() != 4 && (p.Uint64() <= 17 || p.Uint64() == 256) {
					out.precompile = true
				}
			}
		},
		OnExit: func(depth int, output []byte, gasUsed uint64, err error, reverted bool) {
			if depth == 0 && !inSystem {
				topErrs = append(topErrs, err)
			}
		},
	}
	if count {
		hooks.OnOpcode = func(pc uint64, op byte, gas, cost uint64, scope tracing.OpContext, rData []byte, depth int, err error) {
			out.steps++
			if out.steps > stepBudget {
				panic(budgetExceeded{})
			}
		}
	}
	defer func() {
		if e := recover(); e != nil {
			if _, ok := e.(budgetExceeded); ok {
				out.steps = stepBudget + 1
				return
			}
			if s, ok := e.(string); ok && strings.HasPrefix(s, "hxlib:") {
				panic(e)
			}
			out.panicked = fmt.Sprint(e)
		}
	}()
	st, res, _, err := verifc26.Apply(env, alloc, vm.Config{Tracer: hooks}, cfg, txs, -1)
	if err != nil {
		switch {
		case strings.Contains(err.Error(), "empty system contract"):
			out.blockErr = 1
		case strings.Contains(err.Error(), "system call failed"):
			out.blockErr = 2
		default:
			out.blockErr = 3
			out.panicked = "t8n Apply: " + err.Error()
		}
		return out
	}
	out.st = st
	out.root = res.StateRoot
	out.gasUsed = uint64(res.GasUsed)
	if res.CurrentBlobGasUsed != nil {
		out.blobGas = uint64(*res.CurrentBlobGasUsed)
	}
	out.requests = res.Requests
	for _, r := range res.Rejected {
		out.rejected = append(out.rejected, [2]int64{int64(index[r.Index]), txErrStringClass(r.Err)})
	}
	// a transaction rejected after its outermost frame ran cannot exist before Amsterdam: the frames
	// seen are exactly those of the included transactions
	if len(topErrs) != len(res.Receipts) {
		panic(fmt.Sprintf("hxlib: %d outermost frames for %d receipts", len(topErrs), len(res.Receipts)))
	}
	k := 0
	rej := map[int]bool{}
	for _, r := range res.Rejected {
		rej[r.Index] = true
	}
	for i, receipt := range res.Receipts {
		for rej[k] {
			k++
		}
		out.receipts = append(out.receipts, rcpt{receipt.Status, vmErrClass(topErrs[i]), receipt.GasUsed, receipt.CumulativeGasUsed,
			receipt.ContractAddress, receipt.Logs, t.txs[index[k]].gas})
		out.blobGasOf = append(out.blobGasOf, uint64(len(t.txs[index[k]].blobs))*params.BlobTxBlobGasPerBlob)
		k++
	}
	return out
}

// the transition tool reports a rejection as a string: the class is found from the sentinel errors' texts
func txErrStringClass(e string) int64 {
	has := func(err error) bool { return strings.Contains(e, err.Error()) }
	switch {
	case has(core.ErrNonceTooHigh):
		return 1
	case has(core.ErrNonceTooLow):
		return 2
	case has(core.ErrNonceMax):
		return 3
	case has(core.ErrGasLimitTooHigh):
		return 4
	case has(core.ErrSenderNoEOA):
		return 5
	case has(core.ErrTipAboveFeeCap):
		return 6
	case has(core.ErrFeeCapTooLow):
		return 7
	case has(core.ErrBlobTxCreate):
		return 8
	case has(core.ErrMissingBlobHashes):
		return 9
	case has(core.ErrTooManyBlobs):
		return 10
	case strings.Contains(e, "invalid hash version"):
		return 11
	case has(core.ErrBlobFeeCapTooLow):
		return 12
	case has(vm.ErrMaxInitCodeSizeExceeded):
		return 13
	case has(core.ErrGasLimitReached):
		return 14
	case has(core.ErrInsufficientFundsForTransfer):
		return 18
	case has(core.ErrInsufficientFunds):
		return 15
	case has(core.ErrIntrinsicGas):
		return 16
	case has(core.ErrFloorDataGas):
		return 17
	case strings.Contains(e, "would exceed maximum allowance"):
		return teBlobGasLimit
	case has(core.ErrEmptyAuthList):
		return 20
	case has(types.ErrTxTypeNotSupported):
		return teTypeNotSupported
	case has(core.ErrSetCodeTxCreate):
		return 22
	}
	return teOther
}

// ---------------------------------------------------------------------------
// observables

func encLogs(logs []*types.Log) Sx {
	ls := SL{}
	for _, l := range logs {
		tp := SL{}
		for _, x := range l.Topics {
			tp = append(tp, Big(x.Big()))
		}
		ls = append(ls, L(Big(addrBig(l.Address)), tp, B(l.Data)))
	}
	return ls
}

func observe(t bcase, o blockOut) Sx {
	rs := SL{}
	for _, r := range o.receipts {
		rs = append(rs, L(I(r.class), U(r.gasUsed), U(r.cum), Big(addrBig(r.created)), encLogs(r.logs)))
	}
	rej := SL{}
	for _, r := range o.rejected {
		rej = append(rej, L(I(r[0]), I(r[1])))
	}
	reqs := SL{}
	for _, r := range o.requests {
		reqs = append(reqs, B(r))
	}
	dump := SL{}
	if t.debug == 1 {
		dump = dumpState(o)
	}
	if o.blockErr != 0 {
		// the transition tool gives no result for an invalid block
		return L(I(o.blockErr), SL{}, SL{}, SL{}, U(0), U(0), SL{}, SL{})
	}
	return L(I(o.blockErr), B(o.root.Bytes()), rs, rej, U(o.gasUsed), U(o.blobGas), reqs, dump)
}

// full account dump of the committed post-state (debug cases only)
func dumpState(o blockOut) SL {
	d := o.st.RawDump(&state.DumpConfig{})
	type ent struct {
		a *big.Int
		s Sx
	}
	var es []ent
	for _, acc := range d.Accounts {
		if acc.Address == nil {
			panic("hxlib: dump without preimage")
		}
		type kv struct{ k, v *big.Int }
		var kvs []kv
		for k, v := range acc.Storage {
			vb, _ := new(big.Int).SetString(v, 16)
			kvs = append(kvs, kv{k.Big(), vb})
		}
		sort.Slice(kvs, func(i, j int) bool { return kvs[i].k.Cmp(kvs[j].k) < 0 })
		sl := SL{}
		for _, x := range kvs {
			sl = append(sl, L(Big(x.k), Big(x.v)))
		}
		b, _ := new(big.Int).SetString(acc.Balance, 10)
		es = append(es, ent{addrBig(*acc.Address), L(Big(addrBig(*acc.Address)), Big(b), U(acc.Nonce), B(acc.Code), sl)})
	}
	sort.Slice(es, func(i, j int) bool { return es[i].a.Cmp(es[j].a) < 0 })
	out := SL{}
	for _, e := range es {
		out = append(out, e.s)
	}
	return out
}

// ---------------------------------------------------------------------------
// the direct oracle (independent of the Coq model)

func sameReceipts(a, b []rcpt) string {
	if len(a) != len(b) {
		return fmt.Sprintf("%d vs %d receipts", len(a), len(b))
	}
	for i := range a {
		if a[i].status != b[i].status || a[i].gasUsed != b[i].gasUsed || a[i].cum != b[i].cum || a[i].created != b[i].created ||
			String(encLogs(a[i].logs)) != String(encLogs(b[i].logs)) {
			return fmt.Sprintf("receipt %d differs", i)
		}
	}
	return ""
}

func oracle(t bcase, o blockOut) []string {
	var fails []string
	if o.panicked != "" {
		return []string{"panic: " + o.panicked}
	}
	limit := t.env[4].Uint64()
	var prev, sum uint64
	for i, r := range o.receipts {
		if r.gasUsed == 0 || r.cum <= prev {
			fails = append(fails, fmt.Sprintf("receipt %d: cumulative gas %d not above %d", i, r.cum, prev))
		}
		if r.cum != prev+r.gasUsed {
			fails = append(fails, fmt.Sprintf("receipt %d: cumulative gas %d != %d + %d", i, r.cum, prev, r.gasUsed))
		}
		if r.gasUsed > r.txGas {
			fails = append(fails, fmt.Sprintf("receipt %d: gas used %d > gas limit %d of the transaction", i, r.gasUsed, r.txGas))
		}
		if (r.status == types.ReceiptStatusSuccessful) != (r.class == 0) {
			fails = append(fails, fmt.Sprintf("receipt %d: status %d but outermost frame error class %d", i, r.status, r.class))
		}
		if r.status != types.ReceiptStatusSuccessful && len(r.logs) > 0 {
			fails = append(fails, fmt.Sprintf("receipt %d: failed transaction with %d logs", i, len(r.logs)))
		}
		prev = r.cum
		sum += r.gasUsed
	}
	if sum > limit {
		fails = append(fails, fmt.Sprintf("sum of gas used %d > block gas limit %d", sum, limit))
	}
	if o.gasUsed != sum {
		fails = append(fails, fmt.Sprintf("gas pool used %d != sum of receipts %d", o.gasUsed, sum))
	}
	if o.blobGas > eip4844.MaxBlobGasPerBlock(configs[t.fork], t.env[1].Uint64()) {
		fails = append(fails, fmt.Sprintf("blob gas used %d above the block maximum", o.blobGas))
	}
	// ether is neither created nor destroyed except as the EIPs say (EIP-1559: the base fee is burnt;
	// EIP-4844: the blob fee is burnt; EIP-4895: withdrawals are minted): total after = total before
	// + withdrawals - sum(gas used * base fee) - sum(blob gas * blob base fee).  Skipped when a contract
	// self-destructed to itself (EIP-6780 burns its balance if it was created in the same transaction).
	if o.blockErr == 0 && o.st != nil && !o.selfBurn {
		total := new(big.Int)
		for _, a := range t.pre {
			total.Add(total, a.balance)
		}
		for _, w := range t.wds {
			total.Add(total, new(big.Int).Mul(new(big.Int).SetUint64(w.amount), big.NewInt(params.GWei)))
		}
		for i, r := range o.receipts {
			total.Sub(total, new(big.Int).Mul(new(big.Int).SetUint64(r.gasUsed), t.env[6]))
			total.Sub(total, new(big.Int).Mul(new(big.Int).SetUint64(o.blobGasOf[i]), t.env[8]))
		}
		post := new(big.Int)
		for _, acc := range o.st.RawDump(&state.DumpConfig{SkipCode: true, SkipStorage: true}).Accounts {
			b, _ := new(big.Int).SetString(acc.Balance, 10)
			post.Add(post, b)
		}
		if post.Cmp(total) != 0 {
			fails = append(fails, fmt.Sprintf("ether not conserved: total balance %v, expected %v (before + withdrawals - burnt base and blob fees)", post, total))
		}
	}
	// rejected transactions leave no trace: the block without them gives the same root, receipts
	// and requests and rejects nothing; with no rejection this is the determinism of re-execution
	skip := map[int]bool{}
	for _, r := range o.rejected {
		skip[int(r[0])] = true
	}
	o2 := runBlock(t, skip, false)
	if o2.panicked != "" {
		fails = append(fails, "panic on re-execution without the rejected transactions: "+o2.panicked)
	} else {
		if len(o2.rejected) != 0 {
			fails = append(fails, fmt.Sprintf("re-execution without the rejected transactions rejects %v", o2.rejected))
		}
		if o2.root != o.root {
			fails = append(fails, fmt.Sprintf("rejected transactions changed the state (or execution is not deterministic): root %x vs %x without them", o.root, o2.root))
		}
		if d := sameReceipts(o.receipts, o2.receipts); d != "" {
			fails = append(fails, "re-execution without the rejected transactions: "+d)
		}
		if o2.blockErr != o.blockErr || o2.gasUsed != o.gasUsed || o2.blobGas != o.blobGas || len(o2.requests) != len(o.requests) {
			fails = append(fails, "re-execution without the rejected transactions: block-level results differ")
		}
	}
	return fails
}

// ---------------------------------------------------------------------------

func run(c Sx) Result {
	t := parseCase(c)
	res := Result{}
	o := runBlock(t, nil, true)
	if o.steps > stepBudget {
		panic("hxlib: step budget exceeded")
	}
	if o.panicked != "" {
		res.Obs = L(I(-2))
	} else {
		res.Obs = observe(t, o)
	}
	fails := oracle(t, o)
	fails = append(fails, authWarmOracle(t, o)...)
	if p, ok := parseSstoreStream(t); ok {
		fails = append(fails, sstoreOracle(t, p)...)
		res.Tags = append(res.Tags, "sstore-stream", fmt.Sprintf("sstore-orig%d", p.orig))
	}
	if len(fails) > 0 {
		if len(fails) > 3 {
			fails = fails[:3]
		}
		res.Oracle = fmt.Sprint(fails)
	}
	res.Tags = append(res.Tags, "fork"+forkNames[t.fork], fmt.Sprintf("txs%d", len(t.txs)), fmt.Sprintf("blockerr%d", o.blockErr))
	for _, r := range o.rejected {
		res.Tags = append(res.Tags, fmt.Sprintf("rej%d", r[1]))
	}
	for i, r := range o.receipts {
		_ = i
		res.Tags = append(res.Tags, fmt.Sprintf("status%d", r.class))
		if len(r.logs) > 0 {
			res.Tags = append(res.Tags, "logs")
		}
		if r.created != (common.Address{}) {
			res.Tags = append(res.Tags, "create")
		}
	}
	for _, x := range t.txs {
		res.Tags = append(res.Tags, fmt.Sprintf("type%d", x.typ))
		if len(x.al) > 0 {
			res.Tags = append(res.Tags, "accesslist")
		}
	}
	if o.maxDepth >= 2 {
		res.Tags = append(res.Tags, "nested")
	}
	if len(t.wds) > 0 {
		res.Tags = append(res.Tags, "withdrawals")
	}
	if t.beacon != nil {
		res.Tags = append(res.Tags, "beaconroot")
	}
	if len(o.requests) > 0 {
		res.Tags = append(res.Tags, "requests")
	}
	if o.precompile {
		res.Tags = append(res.Tags, "unmodelled-precompile")
	}
	if o.st != nil {
		for k := uint64(1); k <= 6; k++ {
			if _, ok := types.ParseDelegation(o.st.GetCode(addrOf(keyAddr(k)))); ok {
				res.Tags = append(res.Tags, "delegated-eoa")
				break
			}
		}
	}
	for _, x := range t.txs {
		for _, a := range x.auths {
			if a.authority == nil {
				res.Tags = append(res.Tags, "auth-badsig")
			}
			if a.key >= 100 {
				res.Tags = append(res.Tags, "auth-high-s")
			}
			if a.chain.Cmp(big.NewInt(1)) > 0 {
				res.Tags = append(res.Tags, "auth-wrong-chain")
			}
			if a.nonce == ^uint64(0) {
				res.Tags = append(res.Tags, "auth-nonce-max")
			}
			if a.addr.Sign() == 0 {
				res.Tags = append(res.Tags, "auth-clear")
			}
		}
	}
	res.NonTrivial = len(o.receipts) >= 1
	return res
}

func main() {
	Main(Family{
		ID: "C26",
		Rule: "pre-states of 4-9 accounts (2-3 externally owned senders with known keys, coinbase, 2-4 contracts with code from the C27 program grammar, " +
			"the EIP-4788 / 2935 / 7002 / 7251 system contracts with their deployed code or absent/failing variants) and blocks of 1-6 signed transactions " +
			"(legacy, EIP-2930, EIP-1559, EIP-4844, EIP-7702; transfers, contract calls, creations, reverting and out-of-gas executions; invalid ones: nonce too high/low, " +
			"insufficient funds, gas below intrinsic / below the EIP-7623 floor, fee cap below base fee, tip above fee cap, sender with code, oversized initcode, " +
			"gas above the EIP-7825 cap, block gas limit reached, blob hash version / count / fee cap / block blob gas limit), withdrawals, optional beacon root, " +
			"EIP-7702 authorisation lists (valid, wrong chain id / nonce, invalid signature, authority with code, clearing, self-sponsored, repeated authority) and pre-existing delegations, " +
			"plus two targeted streams: (a) EIP-7702 probe: a type-4 transaction whose list mixes valid tuples with every rejection reason (wrong chain id, nonce mismatch, nonce 2^64-1, r = 0, high s, authority with code, duplicate authority, authority = sender / recipient / coinbase) followed by code touching every authority and delegation target with BALANCE, EXTCODESIZE, EXTCODEHASH, EXTCODECOPY, CALL, STATICCALL, DELEGATECALL, CALLCODE and SELFDESTRUCT; " +
			"(b) SSTORE: one transaction writing one slot 2-3 times over all (original, current, new) from {0,X,Y}, with/without SLOAD, access-list entry and gas padding, additionally checked by a Go oracle from EIP-2200/2929/3529 under Berlin, London, Shanghai, Cancun, Prague, Osaka; " +
			"under Cancun / Prague / Osaka. Calls to precompiles other than identity are not generated (cases reaching one are dropped). " +
			"Non-trivial: at least one transaction was included; distinct = distinct case line.",
		Gen:         gen,
		CaseTimeout: 60 * time.Second,
		Run:         run,
	})
}
