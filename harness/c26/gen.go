// Case generator of family c26: pre-states and blocks.
package main

import (
	"math/big"

	. "gethverif/harness/hxlib"
	"github.com/ethereum/go-ethereum/common"
	"github.com/ethereum/go-ethereum/consensus/misc/eip4844"
	"github.com/ethereum/go-ethereum/core"
	"github.com/ethereum/go-ethereum/core/types"
	"github.com/ethereum/go-ethereum/params"
	"github.com/holiman/uint256"
)

func big64(v uint64) *big.Int { return new(big.Int).SetUint64(v) }

var revertCode = []byte{0x60, 0x00, 0x60, 0x00, 0xfd}

func intrinsicOf(t bcase, x txc) uint64 {
	tx := makeTxUnsigned(t, x)
	cfg := configs[t.fork]
	rules := cfg.Rules(new(big.Int).Set(t.env[2]), true, t.env[1].Uint64())
	g, err := core.IntrinsicGas(tx.Data(), tx.AccessList(), tx.SetCodeAuthorizations(), addrOf(x.from), tx.To(), uint256.MustFromBig(x.value), rules)
	if err != nil {
		return 21000
	}
	return g
}

// only what IntrinsicGas needs
func makeTxUnsigned(t bcase, x txc) *types.Transaction {
	var to *common.Address
	if x.to != nil {
		a := addrOf(x.to)
		to = &a
	}
	var al types.AccessList
	for _, e := range x.al {
		tup := types.AccessTuple{Address: addrOf(e.addr)}
		for _, k := range e.keys {
			tup.StorageKeys = append(tup.StorageKeys, common.BigToHash(k))
		}
		al = append(al, tup)
	}
	if x.typ == 0 {
		return types.NewTx(&types.LegacyTx{To: to, Data: x.data, Value: x.value})
	}
	if x.typ == 4 {
		return types.NewTx(&types.SetCodeTx{To: *to, Data: x.data, Value: uint256.MustFromBig(x.value), AccessList: al,
			AuthList: make([]types.SetCodeAuthorization, len(x.auths))})
	}
	return types.NewTx(&types.DynamicFeeTx{To: to, Data: x.data, Value: x.value, AccessList: al})
}

func genData(r *Rng, n int) []byte {
	b := r.Bytes(n)
	switch r.Intn(3) {
	case 0: // many zero bytes
		for i := range b {
			if r.Bool() {
				b[i] = 0
			}
		}
	case 1: // no zero bytes
		for i := range b {
			if b[i] == 0 {
				b[i] = 1
			}
		}
	}
	return b
}

func genCase(r *Rng) bcase {
	var t bcase
	t.fork = []int{0, 0, 0, 1, 1, 2, 2}[r.Intn(7)]
	cfg := configs[t.fork]

	// senders
	nS := 2 + r.Intn(2)
	var senders []uint64
	for i := 0; i < nS; i++ {
		senders = append(senders, uint64(i+1))
	}
	coinbase := big.NewInt(0xcb01)
	ncon := 2 + r.Intn(3)
	var caddrs []*big.Int
	for i := 0; i < ncon; i++ {
		caddrs = append(caddrs, big.NewInt(int64(0x1000+i)))
	}
	switch r.Intn(15) {
	case 0:
		coinbase = caddrs[0]
	case 1:
		coinbase = keyAddr(senders[0])
	}
	w := &world{}
	w.addrs = append(w.addrs, caddrs...)
	w.addrs = append(w.addrs, caddrs...)
	for _, k := range senders {
		w.addrs = append(w.addrs, keyAddr(k))
	}
	w.addrs = append(w.addrs, coinbase, big.NewInt(4), big.NewInt(0x2222), big.NewInt(0x3333))
	// keys 4..6: accounts that only ever sign EIP-7702 authorisations
	authKeys := append(append([]uint64{}, senders...), 4, 5, 6)
	if t.fork >= 1 {
		w.addrs = append(w.addrs, keyAddr(4), keyAddr(5))
	}

	// environment
	gaslimit := uint64(30000000)
	if r.Chance(1, 5) {
		gaslimit = uint64(60000 + r.Intn(2000000))
	}
	basefee := uint64(7 + r.Intn(1000))
	if r.Chance(1, 25) {
		basefee = 0
	}
	excess := uint64(0)
	if r.Bool() {
		excess = uint64(r.Intn(60)) * params.BlobTxBlobGasPerBlob * uint64(1+r.Intn(6))
	}
	tm := uint64(1000 + r.Intn(100000))
	blobFee := eip4844.CalcBlobFee(cfg, &types.Header{Time: tm, ExcessBlobGas: &excess})
	t.env = []*big.Int{coinbase, big64(tm), big64(uint64(1 + r.Intn(600))), new(big.Int).SetBytes(r.Bytes(32)),
		big64(gaslimit), big.NewInt(1), big64(basefee), big64(excess), blobFee}
	if r.Chance(2, 3) {
		t.beacon = r.Bytes(32)
	}

	// pre-state
	nonces := map[uint64]uint64{}
	balances := map[uint64]*big.Int{}
	for _, k := range senders {
		bal := new(big.Int).Add(pow2(62), big64(r.U64()>>8))
		if r.Chance(1, 8) {
			bal = big64(uint64(r.Intn(40000000)) * (basefee + 1))
			if bal.Sign() == 0 {
				bal = big.NewInt(1)
			}
		}
		n := uint64(r.Intn(3))
		if r.Chance(1, 150) {
			n = ^uint64(0)
		}
		a := acct{addr: keyAddr(k), balance: bal, nonce: n}
		if k == senders[len(senders)-1] && r.Chance(1, 20) {
			a.code = []byte{0x00} // a sender with code (EIP-3607)
		} else if t.fork >= 1 && k == senders[len(senders)-1] && r.Chance(1, 8) {
			a.code = append([]byte{0xef, 0x01, 0x00}, addrOf(caddrs[r.Intn(ncon)]).Bytes()...) // an already delegated sender
		}
		nonces[k], balances[k] = n, bal
		t.pre = append(t.pre, a)
	}
	for i := 0; i < ncon; i++ {
		g := &pgen{r: r, a: newAsm(), w: w, wild: r.Chance(1, 6)}
		g.program(2 + r.Intn(10))
		code := g.a.bytes()
		if g.wild && r.Bool() && len(code) > 0 {
			for k := 1 + r.Intn(3); k > 0; k-- {
				code[r.Intn(len(code))] = byte(r.U64())
			}
		}
		if len(code) == 0 {
			code = []byte{0x00}
		}
		ac := acct{addr: caddrs[i], balance: big.NewInt(int64(r.Intn(200))), nonce: 1, code: code}
		for k := 0; k < 4; k++ {
			if r.Chance(1, 3) {
				ac.slots = append(ac.slots, [2]*big.Int{big.NewInt(int64(k)), big.NewInt(int64(1 + r.Intn(3)))})
			}
		}
		t.pre = append(t.pre, ac)
	}
	if r.Chance(1, 3) {
		t.pre = append(t.pre, acct{addr: big.NewInt(0x2222), balance: big.NewInt(int64(1 + r.Intn(5))), nonce: uint64(r.Intn(2))})
	}
	inPre := func(a *big.Int) bool {
		for _, x := range t.pre {
			if x.addr.Cmp(a) == 0 {
				return true
			}
		}
		return false
	}
	if r.Chance(1, 5) && !inPre(coinbase) {
		t.pre = append(t.pre, acct{addr: coinbase, balance: big.NewInt(7)})
	}
	if t.fork >= 1 && r.Chance(1, 4) {
		target := w.addrs[r.Intn(len(w.addrs))]
		t.pre = append(t.pre, acct{addr: keyAddr(5), balance: big.NewInt(int64(r.Intn(100))), nonce: uint64(r.Intn(2)),
			code: append([]byte{0xef, 0x01, 0x00}, addrOf(target).Bytes()...)})
	}
	// system contracts
	sys := func(addr common.Address, code []byte) {
		t.pre = append(t.pre, acct{addr: addrBig(addr), balance: new(big.Int), nonce: 1, code: code})
	}
	switch r.Intn(6) {
	case 0, 1, 2:
		sys(params.BeaconRootsAddress, params.BeaconRootsCode)
	case 3:
		g := &pgen{r: r, a: newAsm(), w: w}
		g.program(2 + r.Intn(6))
		if c := g.a.bytes(); len(c) > 0 {
			sys(params.BeaconRootsAddress, c)
		}
	}
	var reqTargets []*big.Int
	if t.fork >= 1 {
		if !r.Chance(1, 4) {
			sys(params.HistoryStorageAddress, params.HistoryStorageCode)
		}
		for _, sc := range []struct {
			a common.Address
			c []byte
		}{{params.WithdrawalQueueAddress, params.WithdrawalQueueCode}, {params.ConsolidationQueueAddress, params.ConsolidationQueueCode}} {
			switch r.Intn(70) {
			case 0:
			case 1:
				sys(sc.a, revertCode)
			default:
				sys(sc.a, sc.c)
				reqTargets = append(reqTargets, addrBig(sc.a))
			}
		}
	}
	// withdrawals
	for i := r.Intn(4); i > 0; i-- {
		t.wds = append(t.wds, wdl{w.addrs[r.Intn(len(w.addrs))], uint64(r.Intn(6))})
	}

	for _, ak := range authKeys {
		for _, a := range t.pre {
			if a.addr.Cmp(keyAddr(ak)) == 0 {
				nonces[ak] = a.nonce
			}
		}
	}
	// transactions
	ntx := 1 + r.Intn(6)
	for i := 0; i < ntx; i++ {
		k := senders[r.Intn(len(senders))]
		x := txc{key: k, from: keyAddr(k), nonce: nonces[k], value: new(big.Int), blobfeecap: new(big.Int)}
		x.typ = []int{0, 0, 0, 1, 1, 2, 2, 2, 2, 3}[r.Intn(10)]
		if (t.fork >= 1 && r.Chance(1, 5)) || (t.fork == 0 && r.Chance(1, 40)) {
			x.typ = 4
		}
		// destination and data
		switch d := r.Intn(20); {
		case d < 11:
			x.to = caddrs[r.Intn(ncon)]
			x.data = genData(r, r.Intn(70))
		case d < 13:
			x.to = w.addrs[r.Intn(len(w.addrs))]
			x.data = genData(r, r.Intn(40))
		case d < 15: // plain transfer with a long calldata (EIP-7623 floor)
			x.to = big.NewInt(0x3333)
			x.data = genData(r, r.Intn(1500))
		case d < 17 && len(reqTargets) > 0: // EIP-7002 / 7251 request
			x.to = reqTargets[r.Intn(len(reqTargets))]
			if x.to.Cmp(addrBig(params.WithdrawalQueueAddress)) == 0 {
				x.data = r.Bytes(56)
			} else {
				x.data = r.Bytes(96)
			}
			if r.Chance(1, 6) {
				x.data = nil // fee query
			}
			x.value = big.NewInt(int64(r.Intn(4)))
		case d < 19 && x.typ < 3: // creation
			g := &pgen{r: r, a: newAsm(), w: w}
			x.data = g.initcode()
		default:
			x.to = keyAddr(senders[r.Intn(len(senders))])
		}
		if x.typ >= 3 && x.to == nil {
			x.to = caddrs[0]
		}
		// authorisations
		if x.typ == 4 {
			for j := 1 + r.Intn(3); j > 0; j-- {
				ak := authKeys[r.Intn(len(authKeys))]
				au := authc{chain: big.NewInt(int64(r.Intn(2))), key: ak, authority: keyAddr(ak), nonce: nonces[ak]}
				if ak == k {
					au.nonce++ // the sender's nonce has been incremented before the list is processed
				}
				for _, prev := range x.auths {
					if prev.key == ak {
						au.nonce++ // an earlier tuple of the same authority (if it was valid)
					}
				}
				switch r.Intn(8) {
				case 0:
					au.addr = new(big.Int) // clear
				case 1:
					au.addr = w.addrs[r.Intn(len(w.addrs))]
				default:
					au.addr = caddrs[r.Intn(ncon)]
				}
				switch r.Intn(12) {
				case 0:
					au.chain = big.NewInt(int64(2 + r.Intn(3)))
				case 1:
					au.nonce += uint64(1 + r.Intn(2))
				case 2:
					au.authority = nil
				case 3:
					au.nonce = ^uint64(0)
				}
				x.auths = append(x.auths, au)
			}
			if r.Chance(1, 25) {
				x.auths = nil
			}
			if len(x.auths) > 0 && r.Bool() {
				x.to = keyAddr(x.auths[r.Intn(len(x.auths))].key) // run the delegated code
			}
		}
		// value
		if x.value.Sign() == 0 {
			switch r.Intn(10) {
			case 0, 1, 2:
				x.value = big.NewInt(int64(r.Intn(1000)))
			case 3:
				x.value = pow2(uint(40 + r.Intn(30)))
			}
		}
		// fees
		fc := basefee + uint64(r.Intn(100))
		x.feecap = big64(fc)
		if x.typ <= 1 {
			x.tipcap = big64(fc)
		} else {
			x.tipcap = big64(uint64(r.Intn(int(fc) + 1)))
		}
		// access list
		if x.typ >= 1 {
			for j := r.Intn(4); j > 0; j-- {
				e := alEntry{addr: w.addrs[r.Intn(len(w.addrs))]}
				for q := r.Intn(4); q > 0; q-- {
					e.keys = append(e.keys, big.NewInt(int64(r.Intn(4))))
				}
				x.al = append(x.al, e)
			}
		}
		// blobs
		if x.typ == 3 {
			for j := 1 + r.Intn(3); j > 0; j-- {
				h := r.Bytes(32)
				h[0] = 1
				x.blobs = append(x.blobs, new(big.Int).SetBytes(h))
			}
			x.blobfeecap = new(big.Int).Add(blobFee, big64(uint64(r.Intn(10))))
		}
		// gas
		intr := intrinsicOf(t, x)
		switch r.Intn(10) {
		case 0:
			x.gas = intr
		case 1:
			x.gas = intr + uint64(r.Intn(3000))
		case 2, 3:
			x.gas = intr + uint64(r.Intn(60000))
		default:
			x.gas = intr + uint64(100000+r.Intn(1500000))
		}
		if x.to == nil && r.Chance(1, 3) {
			x.gas += 6000000 // enough for a 24 kB code deposit
		}
		if t.fork >= 2 && x.gas > params.MaxTxGas {
			x.gas = params.MaxTxGas
		}
		// defects
		valid := true
		if r.Chance(1, 5) {
			valid = false
			switch r.Intn(16) {
			case 0:
				x.nonce++
			case 1:
				if x.nonce > 0 {
					x.nonce--
				} else {
					x.nonce += 2
				}
			case 2:
				if basefee > 0 {
					x.feecap = big64(uint64(r.Intn(int(basefee))))
					if x.tipcap.Cmp(x.feecap) > 0 || x.typ <= 1 {
						x.tipcap = x.feecap
					}
				} else {
					valid = true
				}
			case 3:
				if x.typ >= 2 {
					x.tipcap = new(big.Int).Add(x.feecap, big64(uint64(1+r.Intn(5))))
				} else {
					valid = true
				}
			case 4:
				x.gas = intr - 1 - uint64(r.Intn(100))
			case 5:
				x.value = new(big.Int).Add(balances[k], big64(uint64(r.Intn(3))))
				x.value.Sub(x.value, big64(uint64(r.Intn(3))*x.gas*fc))
				if x.value.Sign() < 0 {
					x.value = new(big.Int).Set(balances[k])
				}
				valid = true // may or may not be affordable
			case 6:
				x.feecap = pow2(uint(70 + r.Intn(100)))
				if x.typ <= 1 {
					x.tipcap = x.feecap
				}
			case 7:
				if x.to == nil {
					x.data = append(genData(r, 49152), make([]byte, 1+r.Intn(2))...)
					x.gas = intrinsicOf(t, x) + 100000
					if t.fork >= 2 && x.gas > params.MaxTxGas {
						x.gas = params.MaxTxGas
					}
				} else {
					valid = true
				}
			case 8:
				x.gas = params.MaxTxGas + 1 + uint64(r.Intn(5)) // invalid under Osaka only
				valid = t.fork < 2
			case 9:
				x.gas = gaslimit + uint64(r.Intn(3)) // at or just above the block gas limit
				valid = true
			case 10:
				if x.typ == 3 {
					h := new(big.Int).SetBytes(x.blobs[0].Bytes())
					h.SetBit(h, 249, 1) // version 0x03
					x.blobs[r.Intn(len(x.blobs))] = h
				} else {
					valid = true
				}
			case 11:
				if x.typ == 3 {
					for len(x.blobs) < 7+r.Intn(4) {
						h := r.Bytes(32)
						h[0] = 1
						x.blobs = append(x.blobs, new(big.Int).SetBytes(h))
					}
				} else {
					valid = true
				}
			case 12:
				if x.typ == 3 && blobFee.Cmp(big.NewInt(1)) > 0 {
					x.blobfeecap = new(big.Int).Sub(blobFee, big.NewInt(1))
				} else {
					valid = true
				}
			case 13:
				if x.typ == 3 {
					x.blobs = nil
				} else {
					valid = true
				}
			case 14:
				if x.typ == 3 { // up to the per-block maximum: later blob transactions hit the block blob gas limit
					for len(x.blobs) < 5+r.Intn(2) {
						h := r.Bytes(32)
						h[0] = 1
						x.blobs = append(x.blobs, new(big.Int).SetBytes(h))
					}
				}
				valid = true
			default:
				x.gas = intr + uint64(r.Intn(200)) // below the EIP-7623 floor under Prague when there is calldata
				valid = true
			}
		}
		_ = valid
		t.txs = append(t.txs, x)
		// the generator runs the implementation on the block so far: the next nonce of every key is
		// read from the resulting state
		if o := runBlock(t, nil, false); o.st != nil {
			for _, ak := range authKeys {
				nonces[ak] = o.st.GetNonce(addrOf(keyAddr(ak)))
			}
		}
	}
	return t
}

func gen(r *Rng, tier string, emit func(Sx)) {
	r = NewRng(r.U64())
	n := 240
	if tier == "thorough" {
		n = 6000
	}
	np := 70
	if tier == "thorough" {
		np = 1500
	}
	genSstore(r.Fork(), tier, emit)
	for i := 0; i < n+np; i++ {
		var t bcase
		if i < np {
			t = genAuthProbe(r.Fork())
		} else {
			t = genCase(r.Fork())
		}
		// the generator runs the implementation once: cases that call a precompile outside the
		// specification or execute very many instructions are dropped
		o := runBlock(t, nil, true)
		if o.precompile || o.steps > 150000 {
			continue
		}
		emit(t.sx())
	}
}
