// Targeted case streams of family c26:
//
//   - the EIP-7702 probe stream: a type-4 transaction whose authorisation list contains every rejection
//     reason, followed by code that touches every authority and every delegation target with each
//     opcode whose price depends on the accessed-addresses set;
//   - the SSTORE stream: one transaction writing one slot two or three times, over all (original,
//     current, new) triples from {0, X, Y}, with and without gas padding (so that the EIP-3529 cap
//     does or does not hide the refund counter).  For this stream the harness also carries a Go-side
//     oracle written from EIP-2200 / EIP-2929 / EIP-3529 that is evaluated under Berlin, London,
//     Shanghai, Cancun, Prague and Osaka (the first three are not in the Coq specification).
package main

import (
	"fmt"
	"math/big"

	. "gethverif/harness/hxlib"
	"github.com/ethereum/go-ethereum/common"
	"github.com/ethereum/go-ethereum/consensus/misc/eip4844"
	"github.com/ethereum/go-ethereum/core/types"
	"github.com/ethereum/go-ethereum/params"
)

func baseEnv(r *Rng, fork int, coinbase *big.Int) []*big.Int {
	excess := uint64(0)
	tm := uint64(1000 + r.Intn(100000))
	blobFee := eip4844.CalcBlobFee(configs[fork], &types.Header{Time: tm, ExcessBlobGas: &excess})
	return []*big.Int{coinbase, big64(tm), big64(uint64(1 + r.Intn(600))), new(big.Int).SetBytes(r.Bytes(32)),
		big64(30000000), big.NewInt(1), big64(uint64(7 + r.Intn(100))), big64(excess), blobFee}
}

func requestContracts(t *bcase) {
	if t.fork >= 1 {
		for _, sc := range []struct {
			a common.Address
			c []byte
		}{{params.HistoryStorageAddress, params.HistoryStorageCode}, {params.WithdrawalQueueAddress, params.WithdrawalQueueCode},
			{params.ConsolidationQueueAddress, params.ConsolidationQueueCode}} {
			t.pre = append(t.pre, acct{addr: addrBig(sc.a), balance: new(big.Int), nonce: 1, code: sc.c})
		}
	}
}

// ---------------------------------------------------------------------------
// SSTORE stream

const (
	sstoreSlot    = 1
	sstoreX       = 5
	sstoreY       = 7
	sstorePadBase = 0x7000
)

type sstoreProg struct {
	orig   uint64
	sload  bool     // PUSH1 slot SLOAD POP first
	writes []uint64 // values written, in order
	pad    int      // number of cold BALANCE probes appended
	warm   bool     // the slot is in the transaction's access list
}

func (p sstoreProg) code() []byte {
	var c []byte
	if p.sload {
		c = append(c, 0x60, sstoreSlot, 0x54, 0x50)
	}
	for _, v := range p.writes {
		c = append(c, 0x60, byte(v), 0x60, sstoreSlot, 0x55)
	}
	for i := 0; i < p.pad; i++ {
		a := sstorePadBase + i
		c = append(c, 0x61, byte(a>>8), byte(a), 0x31, 0x50)
	}
	return append(c, 0x00)
}

func sstoreCase(r *Rng, fork int, p sstoreProg) bcase {
	var t bcase
	t.fork = fork
	t.env = baseEnv(r, fork, big.NewInt(0xcb01))
	con := acct{addr: big.NewInt(0x1000), balance: new(big.Int), nonce: 1, code: p.code()}
	if p.orig != 0 {
		con.slots = [][2]*big.Int{{big.NewInt(sstoreSlot), big64(p.orig)}}
	}
	t.pre = []acct{{addr: keyAddr(1), balance: pow2(62), nonce: 0}, con}
	requestContracts(&t)
	fc := new(big.Int).Add(t.env[6], big.NewInt(3))
	x := txc{typ: 0, key: 1, from: keyAddr(1), nonce: 0, gas: 400000, feecap: fc, tipcap: fc, to: con.addr,
		value: new(big.Int), blobfeecap: new(big.Int)}
	if p.warm {
		x.typ = 1
		x.al = []alEntry{{addr: con.addr, keys: []*big.Int{big.NewInt(sstoreSlot)}}}
	}
	t.txs = []txc{x}
	return t
}

// parseSstoreStream recognises a case of the SSTORE stream (exactly the shape sstoreCase builds)
func parseSstoreStream(t bcase) (p sstoreProg, ok bool) {
	if len(t.txs) != 1 || len(t.wds) != 0 || t.beacon != nil {
		return p, false
	}
	x := t.txs[0]
	if x.typ > 1 || x.to == nil || x.to.Cmp(big.NewInt(0x1000)) != 0 || len(x.data) != 0 || x.value.Sign() != 0 ||
		x.gas != 400000 || x.key != 1 || x.nonce != 0 {
		return p, false
	}
	switch len(x.al) {
	case 0:
	case 1:
		if x.al[0].addr.Cmp(x.to) != 0 || len(x.al[0].keys) != 1 || x.al[0].keys[0].Cmp(big.NewInt(sstoreSlot)) != 0 {
			return p, false
		}
		p.warm = true
	default:
		return p, false
	}
	// the shape must be exactly the generator's (a shrink candidate with, say, a block gas limit of 0 is
	// not a case of the stream)
	if t.env[4].Cmp(big.NewInt(30000000)) != 0 || t.env[5].Cmp(big.NewInt(1)) != 0 || t.env[6].Cmp(big.NewInt(200)) > 0 ||
		x.feecap.Cmp(t.env[6]) < 0 || x.feecap.Cmp(big.NewInt(1000)) > 0 || x.tipcap.Cmp(x.feecap) != 0 {
		return p, false
	}
	var code []byte
	found, sender := false, false
	for _, a := range t.pre {
		switch {
		case a.addr.Cmp(x.to) == 0:
			code, found = a.code, true
			for _, s := range a.slots {
				if s[0].Cmp(big.NewInt(sstoreSlot)) != 0 || !s[1].IsUint64() {
					return p, false
				}
				p.orig = s[1].Uint64()
			}
			if a.balance.Sign() != 0 {
				return p, false
			}
		case a.addr.Cmp(keyAddr(1)) == 0:
			if a.nonce != 0 || len(a.code) != 0 || a.balance.Cmp(pow2(62)) != 0 {
				return p, false
			}
			sender = true
		case a.addr.BitLen() <= 16: // no other small address may exist (the padding probes must be cold and empty)
			return p, false
		}
	}
	if !found || !sender {
		return p, false
	}
	i := 0
	if len(code) >= 4 && code[0] == 0x60 && code[1] == sstoreSlot && code[2] == 0x54 && code[3] == 0x50 {
		p.sload = true
		i = 4
	}
	for i+5 <= len(code) && code[i] == 0x60 && code[i+2] == 0x60 && code[i+3] == sstoreSlot && code[i+4] == 0x55 {
		p.writes = append(p.writes, uint64(code[i+1]))
		i += 5
	}
	for i+5 <= len(code) && code[i] == 0x61 && code[i+3] == 0x31 && code[i+4] == 0x50 {
		if int(code[i+1])<<8|int(code[i+2]) != sstorePadBase+p.pad {
			return p, false
		}
		p.pad++
		i += 5
	}
	if i != len(code)-1 || code[i] != 0x00 || len(p.writes) == 0 {
		return p, false
	}
	return p, true
}

// expected gas used of the stream's transaction, from the EIP texts (EIP-2200 net metering with the
// EIP-2929 cold surcharge; refunds: EIP-2200 under Berlin, EIP-3529 from London on).  level -3 =
// Berlin, -2 London, -1 Shanghai, 0.. Cancun, Prague, Osaka.  Returns (gas used, refund counter).
func (p sstoreProg) expect(level int) (uint64, int64) {
	const (
		coldSload, warmRead, sstoreSet, sstoreReset = 2100, 100, 20000, 5000 - 2100
	)
	clears, quotient := int64(4800), uint64(5)
	if level == -3 {
		clears, quotient = 15000, 2
	}
	gas := uint64(21000)
	if p.warm {
		gas += 2400 + 1900
	}
	warm := p.warm
	cur := p.orig
	refund := int64(0)
	if p.sload {
		gas += 3 + 2 // PUSH1, POP
		if warm {
			gas += warmRead
		} else {
			gas += coldSload
			warm = true
		}
	}
	for _, v := range p.writes {
		gas += 3 + 3
		if !warm {
			gas += coldSload
			warm = true
		}
		switch {
		case cur == v:
			gas += warmRead
		case p.orig == cur:
			if p.orig == 0 {
				gas += sstoreSet
			} else {
				gas += sstoreReset
				if v == 0 {
					refund += clears
				}
			}
		default:
			gas += warmRead
			if p.orig != 0 {
				if cur == 0 {
					refund -= clears
				} else if v == 0 {
					refund += clears
				}
			}
			if p.orig == v {
				if p.orig == 0 {
					refund += sstoreSet - warmRead
				} else {
					refund += sstoreReset - warmRead
				}
			}
		}
		cur = v
	}
	gas += uint64(p.pad) * (3 + 2600 + 2)
	applied := gas / quotient
	if refund >= 0 && uint64(refund) < applied {
		applied = uint64(refund)
	}
	return gas - applied, refund
}

// sstoreOracle runs the stream's case under the six rule sets and compares the receipt with [expect]
func sstoreOracle(t bcase, p sstoreProg) []string {
	var fails []string
	for level := -3; level <= 2; level++ {
		t2 := t
		if level >= 0 {
			if level != t.fork {
				continue // the other modelled rule sets have their own cases (system contracts differ)
			}
		}
		o := runBlockAt(t2, nil, false, level)
		want, counter := p.expect(level)
		switch {
		case o.panicked != "":
			fails = append(fails, fmt.Sprintf("SSTORE stream under %s: panic %s", levelNames[level], o.panicked))
		case len(o.receipts) != 1 || len(o.rejected) != 0:
			fails = append(fails, fmt.Sprintf("SSTORE stream under %s: %d receipts, rejected %v", levelNames[level], len(o.receipts), o.rejected))
		case o.receipts[0].status != types.ReceiptStatusSuccessful:
			fails = append(fails, fmt.Sprintf("SSTORE stream under %s: transaction failed (class %d)", levelNames[level], o.receipts[0].class))
		case o.receipts[0].gasUsed != want:
			fails = append(fails, fmt.Sprintf("SSTORE stream under %s: original %d, writes %v (sload %v, slot in access list %v, padding %d): gas used %d, EIP-2200/2929/3529 give %d (refund counter %d)",
				levelNames[level], p.orig, p.writes, p.sload, p.warm, p.pad, o.receipts[0].gasUsed, want, counter))
		}
	}
	return fails
}

func genSstore(r *Rng, tier string, emit func(Sx)) {
	vals := []uint64{0, sstoreX, sstoreY}
	var progs []sstoreProg
	for _, o := range vals {
		for _, a := range vals {
			for _, b := range vals {
				progs = append(progs, sstoreProg{orig: o, writes: []uint64{a, b}})
				for _, c := range vals {
					progs = append(progs, sstoreProg{orig: o, writes: []uint64{a, b, c}})
				}
			}
		}
	}
	n := 36
	if tier == "thorough" {
		n = 6 * len(progs)
	}
	for i := 0; i < n; i++ {
		p := progs[r.Intn(len(progs))]
		if tier == "thorough" {
			p = progs[i%len(progs)]
		}
		if r.Chance(2, 3) {
			p.pad = 40 // 104 000 gas: the EIP-3529 cap (1/5) stays above every refund of the stream
		}
		p.sload = r.Chance(1, 4)
		p.warm = r.Chance(1, 4)
		emit(sstoreCase(r, r.Intn(3), p).sx())
	}
}

// ---------------------------------------------------------------------------
// EIP-7702 probe stream

// opcodes whose price depends on the accessed-addresses set
var probeOps = []byte{0x31, 0x3b, 0x3f, 0x3c, 0xf1, 0xfa, 0xf4, 0xf2}

func probeStmt(a *asm, op byte, target *big.Int) {
	pushAddr := func() {
		b := make([]byte, 20)
		target.FillBytes(b)
		a.op(0x73)
		a.op(b...)
	}
	switch op {
	case 0x31, 0x3b, 0x3f:
		pushAddr()
		a.op(op, 0x50)
	case 0x3c:
		a.op(0x60, 4, 0x60, 0, 0x60, 0)
		pushAddr()
		a.op(0x3c)
	default: // CALL family with 5000 gas
		a.op(0x60, 0, 0x60, 0, 0x60, 0, 0x60, 0)
		if op == 0xf1 || op == 0xf2 {
			a.op(0x60, 0)
		}
		pushAddr()
		a.op(0x61, 0x13, 0x88, op, 0x50)
	}
}

type probeAuthority struct {
	key   uint64
	nonce uint64 // current nonce (tracked through the list)
	code  bool   // has non-delegation code
}

func genAuthProbe(r *Rng) bcase {
	var t bcase
	t.fork = 1 + r.Intn(2)
	probe, d1, d2 := big.NewInt(0x1000), big.NewInt(0x1001), big.NewInt(0x1002)
	coinbase := big.NewInt(0xcb01)
	if r.Chance(1, 4) {
		coinbase = keyAddr(6) // an authority is the coinbase (warm by EIP-3651)
	}
	t.env = baseEnv(r, t.fork, coinbase)
	senderNonce := uint64(r.Intn(3))
	auths := map[uint64]*probeAuthority{
		1: {key: 1, nonce: senderNonce},
		2: {key: 2, nonce: uint64(r.Intn(2))},
		3: {key: 3, nonce: uint64(r.Intn(2)), code: true},
		4: {key: 4},
		5: {key: 5, nonce: 1},
		6: {key: 6, nonce: uint64(r.Intn(3))},
	}
	t.pre = []acct{
		{addr: keyAddr(1), balance: pow2(62), nonce: senderNonce},
		{addr: keyAddr(2), balance: pow2(61), nonce: auths[2].nonce},
		{addr: keyAddr(3), balance: big.NewInt(9), nonce: auths[3].nonce, code: []byte{0x00}},
		{addr: keyAddr(5), balance: big.NewInt(3), nonce: 1, code: append([]byte{0xef, 0x01, 0x00}, addrOf(d1).Bytes()...)},
		{addr: d1, balance: big.NewInt(1), nonce: 1, code: []byte{0x60, 0x01, 0x60, 0x00, 0x55, 0x00}},
		{addr: d2, balance: new(big.Int), nonce: 1, code: []byte{0x5a, 0x50, 0x00}},
	}
	if auths[6].nonce > 0 || r.Bool() {
		t.pre = append(t.pre, acct{addr: keyAddr(6), balance: big.NewInt(5), nonce: auths[6].nonce})
	}
	// the probing contract touches every authority and every delegation target
	targets := []*big.Int{keyAddr(1), keyAddr(2), keyAddr(3), keyAddr(4), keyAddr(5), keyAddr(6), d1, d2, big.NewInt(0x3333)}
	a := newAsm()
	for _, i := range permutation(r, len(targets)) {
		probeStmt(a, probeOps[r.Intn(len(probeOps))], targets[i])
		if r.Chance(1, 4) { // a second, now warm, access
			probeStmt(a, probeOps[r.Intn(len(probeOps))], targets[i])
		}
	}
	switch r.Intn(4) {
	case 0: // SELFDESTRUCT with an authority / delegation target as beneficiary
		tg := targets[r.Intn(len(targets))]
		b := make([]byte, 20)
		tg.FillBytes(b)
		a.op(0x73)
		a.op(b...)
		a.op(0xff)
	default:
		a.op(0x00)
	}
	t.pre = append(t.pre, acct{addr: probe, balance: big.NewInt(int64(r.Intn(3))), nonce: 1, code: a.bytes()})
	requestContracts(&t)

	fc := new(big.Int).Add(t.env[6], big.NewInt(int64(1+r.Intn(20))))
	x := txc{typ: 4, key: 1, from: keyAddr(1), nonce: senderNonce, gas: uint64(1500000 + r.Intn(500000)), feecap: fc,
		tipcap: big.NewInt(int64(r.Intn(2))), to: probe, value: new(big.Int), blobfeecap: new(big.Int)}
	auths[1].nonce++ // the sender's nonce is incremented before the list is processed
	delegTargets := []*big.Int{d1, d2, probe, new(big.Int), big.NewInt(4), keyAddr(2)}
	for j := 1 + r.Intn(6); j > 0; j-- {
		k := uint64(1 + r.Intn(6))
		au := auths[k]
		c := authc{chain: big.NewInt(int64(r.Intn(2))), key: k, authority: keyAddr(k), nonce: au.nonce,
			addr: delegTargets[r.Intn(len(delegTargets))]}
		valid := !au.code
		switch r.Intn(9) {
		case 0: // wrong chain id
			c.chain = big.NewInt(int64(2 + r.Intn(5)))
			valid = false
		case 1: // nonce mismatch
			if r.Bool() || c.nonce == 0 {
				c.nonce += uint64(1 + r.Intn(2))
			} else {
				c.nonce--
			}
			valid = false
		case 2: // nonce overflow (EIP-2681)
			c.nonce = ^uint64(0)
			valid = false
		case 3: // r = 0
			c.authority = nil
			valid = false
		case 4: // high s
			c.authority = nil
			c.key = k + 100
			valid = false
		}
		if valid {
			au.nonce++
		}
		x.auths = append(x.auths, c)
	}
	switch r.Intn(5) {
	case 0: // the recipient is an authority of the list: the code it is delegated to (if any) runs
		x.to = keyAddr(x.auths[r.Intn(len(x.auths))].key % 100)
	case 1: // some targets are warm through the access list
		for j := 1 + r.Intn(3); j > 0; j-- {
			x.al = append(x.al, alEntry{addr: targets[r.Intn(len(targets))]})
		}
	}
	t.txs = []txc{x}
	if r.Bool() { // the accessed set does not survive the transaction, the delegations do
		fc2 := new(big.Int).Add(t.env[6], big.NewInt(5))
		t.txs = append(t.txs, txc{typ: 2, key: 2, from: keyAddr(2), nonce: auths[2].nonce, gas: 1500000, feecap: fc2,
			tipcap: big.NewInt(1), to: probe, value: new(big.Int), blobfeecap: new(big.Int)})
	}
	return t
}

func permutation(r *Rng, n int) []int {
	p := make([]int, n)
	for i := range p {
		p[i] = i
	}
	for i := n - 1; i > 0; i-- {
		j := r.Intn(i + 1)
		p[i], p[j] = p[j], p[i]
	}
	return p
}

// authWarmOracle: EIP-7702 adds the authority of a tuple to accessed_addresses as soon as the chain id
// and nonce bound are fine and the signature recovers — before the code and nonce checks, and whether or
// not the tuple is finally applied.  Hence listing such an authority in the transaction's access list
// (with 2400 more gas) changes nothing but the intrinsic charge: the same outcome and logs, and the gas
// used grows by 2400 minus at most 2400/5 (the EIP-3529 cap moves with the gas used).  This is checked on
// the implementation alone, one authority at a time.
func authWarmOracle(t bcase, o blockOut) []string {
	if o.blockErr != 0 || o.panicked != "" {
		return nil
	}
	rejected := map[int]bool{}
	for _, r := range o.rejected {
		rejected[int(r[0])] = true
	}
	var fails []string
	ri := 0
	for i, x := range t.txs {
		if rejected[i] {
			continue
		}
		mine := ri
		ri++
		if x.typ != 4 || len(x.data) != 0 || mine >= len(o.receipts) {
			continue
		}
		seen := map[string]bool{}
		for _, e := range x.al {
			seen[e.addr.String()] = true
		}
		for _, a := range x.auths {
			if a.authority == nil || a.chain.Cmp(big.NewInt(1)) > 0 || a.nonce == ^uint64(0) || seen[a.authority.String()] {
				continue
			}
			seen[a.authority.String()] = true
			t2 := t
			t2.txs = append([]txc{}, t.txs...)
			y := x
			y.al = append(append([]alEntry{}, x.al...), alEntry{addr: a.authority})
			y.gas += 2400
			t2.txs[i] = y
			o2 := runBlockAt(t2, nil, false, t.fork)
			if o2.panicked != "" || o2.blockErr != 0 || len(o2.rejected) != len(o.rejected) || len(o2.receipts) != len(o.receipts) {
				continue // the heavier transaction no longer fits (block gas limit, balance, EIP-7825 cap)
			}
			ra, rb := o.receipts[mine], o2.receipts[mine]
			if ra.status != rb.status || String(encLogs(ra.logs)) != String(encLogs(rb.logs)) ||
				rb.gasUsed > ra.gasUsed+2400 || rb.gasUsed+480 < ra.gasUsed+2400 {
				fails = append(fails, fmt.Sprintf("EIP-7702: transaction %d: with authority %x (tuple with a recoverable signature) also in the access list the gas used goes from %d to %d (status %d -> %d): the authority was not in accessed_addresses",
					i, a.authority, ra.gasUsed, rb.gasUsed, ra.status, rb.status))
				break
			}
		}
	}
	return fails
}
