// Family c41: core/txpool/legacypool (LegacyPool) vs coq/Pool/Legacy.v.
//
// A case is an operation history over a fake chain:
//
//	( (bump aslots gslots aqueue gqueue naccts gastip)
//	  (block ...)  block = (id parent num gaslimit basefee (nonce...) (balance...) (txid...)), genesis first, parents first
//	  (tx ...)     tx    = (id from nonce gas feecap tip value slots intr)
//	  (op ...) )   op    = (0 txid...) Add(sync) | (1 blockid) Reset(head->block) | (2 tip) SetGasTip
//
// After every op the white-box state is dumped through the verif export, canonicalised
// (hash -> tx id, accounts by index) and PoolInv is evaluated on it directly.
package main

import (
	"crypto/ecdsa"
	"errors"
	"fmt"
	"math/big"
	"sort"
	"time"

	"github.com/ethereum/go-ethereum/common"
	"github.com/ethereum/go-ethereum/core"
	"github.com/ethereum/go-ethereum/core/state"
	"github.com/ethereum/go-ethereum/core/tracing"
	"github.com/ethereum/go-ethereum/core/txpool"
	"github.com/ethereum/go-ethereum/core/txpool/legacypool"
	"github.com/ethereum/go-ethereum/core/types"
	"github.com/ethereum/go-ethereum/crypto"
	"github.com/ethereum/go-ethereum/params"
	"github.com/ethereum/go-ethereum/trie"
	. "gethverif/harness/hxlib"
	"github.com/holiman/uint256"
)

const maxAccts = 6

// stable prefixes of the two open known findings (known_findings.json matches on them)
const (
	knownGap  = "C41-interior-gap-after-reinjection: pending list with an interior nonce gap (front nonce = state nonce) after a Reset that lowered the account's nonce below its pending txs and whose reinjection left a dropped tx of the account out of the pool"
	knownBump = "C41-bump-bypass-via-eviction: a tx entered through the pool-full path of add while its same-sender same-nonce predecessor was evicted by Discard, replacing it below the configured price bump"
)

var (
	keys  [maxAccts]*ecdsa.PrivateKey
	addrs [maxAccts]common.Address
)

func init() {
	for i := 0; i < maxAccts; i++ {
		b := make([]byte, 32)
		for j := range b {
			b[j] = byte(0x11*(i+1) + j)
		}
		k, err := crypto.ToECDSA(b)
		if err != nil {
			panic(err)
		}
		keys[i] = k
		addrs[i] = crypto.PubkeyToAddress(k.PublicKey)
	}
}

// ---------------------------------------------------------------- case shapes

type txSpec struct{ id, from, nonce, gas, feecap, tip, value, slots, intr uint64 }

type blockSpec struct {
	id, parent, num, gaslimit, basefee uint64
	nonces, bals                       []uint64
	txids                              []uint64
}

func u(v Sx) uint64 {
	b := AsBig(v)
	if b.Sign() < 0 || !b.IsUint64() {
		panic("hxlib: number out of range")
	}
	return b.Uint64()
}

func ulist(v Sx) []uint64 {
	var out []uint64
	for _, x := range AsList(v) {
		out = append(out, u(x))
	}
	return out
}

func padLen(slots uint64) int {
	if slots <= 1 {
		return 0
	}
	return int(slots-1)*32*1024 + 1000
}

func intrinsic(slots uint64) uint64 { return 21000 + 4*16 + 4*uint64(padLen(slots)) }

func txData(id, slots uint64) []byte {
	d := []byte{0x10 | byte(id>>12&15), 0x10 | byte(id>>8&15), 0x10 | byte(id>>4&15), 0x10 | byte(id&15)}
	return append(d, make([]byte, padLen(slots))...)
}

// ---------------------------------------------------------------- fake chain

type fakeChain struct {
	blocks  map[common.Hash]*types.Block
	specs   map[common.Hash]*blockSpec
	head    *types.Header
	genesis *types.Block
	naccts  int
}

func (c *fakeChain) Config() *params.ChainConfig { return params.TestChainConfig }
func (c *fakeChain) CurrentBlock() *types.Header  { return c.head }
func (c *fakeChain) Genesis() *types.Block        { return c.genesis }
func (c *fakeChain) GetBlock(hash common.Hash, number uint64) *types.Block {
	b := c.blocks[hash]
	if b == nil || b.NumberU64() != number {
		return nil
	}
	return b
}
func (c *fakeChain) StateAt(h *types.Header) (*state.StateDB, error) {
	spec := c.specs[h.Hash()]
	if spec == nil {
		return nil, errors.New("unknown header")
	}
	sdb, err := state.New(types.EmptyRootHash, state.NewDatabaseForTesting())
	if err != nil {
		return nil, err
	}
	for i := 0; i < c.naccts; i++ {
		sdb.SetNonce(addrs[i], spec.nonces[i], tracing.NonceChangeUnspecified)
		sdb.SetBalance(addrs[i], uint256.NewInt(spec.bals[i]), tracing.BalanceChangeUnspecified)
	}
	return sdb, nil
}

// reserver records the reservation protocol and any misuse of it.
type reserver struct {
	held   map[common.Address]bool
	faults []string
}

func (r *reserver) Hold(a common.Address) error {
	if r.held[a] {
		r.faults = append(r.faults, "double Hold")
	}
	r.held[a] = true
	return nil
}
func (r *reserver) Release(a common.Address) error {
	if !r.held[a] {
		r.faults = append(r.faults, "Release of unreserved account")
	}
	delete(r.held, a)
	return nil
}
func (r *reserver) Has(a common.Address) bool { return false }

func errClass(err error) int64 {
	switch {
	case err == nil:
		return 0
	case errors.Is(err, txpool.ErrAlreadyKnown):
		return 1
	case errors.Is(err, txpool.ErrOversizedData):
		return 2
	case errors.Is(err, txpool.ErrGasLimit):
		return 3
	case errors.Is(err, core.ErrTipAboveFeeCap):
		return 4
	case errors.Is(err, core.ErrIntrinsicGas):
		return 5
	case errors.Is(err, txpool.ErrTxGasPriceTooLow):
		return 6
	case errors.Is(err, core.ErrNonceTooLow):
		return 7
	case errors.Is(err, core.ErrInsufficientFunds):
		return 8
	case errors.Is(err, txpool.ErrUnderpriced):
		return 9
	case errors.Is(err, legacypool.ErrTxPoolOverflow):
		return 10
	case errors.Is(err, legacypool.ErrFutureReplacePending):
		return 11
	case errors.Is(err, txpool.ErrReplaceUnderpriced):
		return 12
	}
	return 99
}

// ---------------------------------------------------------------- run

type runner struct {
	cfg              legacypool.Config
	bump             uint64
	naccts           int
	txs              map[uint64]*types.Transaction
	specOf           map[uint64]*txSpec
	idOf             map[common.Hash]uint64
	chain            *fakeChain
	hdrOf            map[uint64]*types.Header
	bspec            map[uint64]*blockSpec
	pool             *legacypool.LegacyPool
	res              *reserver
	tags             map[string]bool
	fails            []string
	maxPooled        int
	gapKnown         [maxAccts]bool // the verified mechanism of finding C41-interior-gap-after-reinjection occurred for this account
	known            map[string]bool // open known findings observed (reported only when nothing else failed)
}

func (r *runner) fail(format string, a ...interface{}) {
	if len(r.fails) < 6 {
		r.fails = append(r.fails, fmt.Sprintf(format, a...))
	}
}

func (r *runner) ids(txs types.Transactions) []uint64 {
	out := make([]uint64, len(txs))
	for i, tx := range txs {
		id, ok := r.idOf[tx.Hash()]
		if !ok {
			id = 0xffffff
		}
		out[i] = id
	}
	return out
}

func idList(ids []uint64, sorted bool) Sx {
	if sorted {
		ids = append([]uint64{}, ids...)
		sort.Slice(ids, func(i, j int) bool { return ids[i] < ids[j] })
	}
	items := make([]Sx, len(ids))
	for i, v := range ids {
		items[i] = U(v)
	}
	return L(items...)
}

// dump takes the white-box dump (which does not go through Flatten, so observing neither fills
// nor repairs the sorted caches) and orders the item sets by nonce.
func (r *runner) dump() *legacypool.VerifDump {
	d := r.pool.VerifDump()
	for _, m := range []map[common.Address]*legacypool.VerifList{d.Pending, d.Queue} {
		for _, l := range m {
			sort.SliceStable(l.Items, func(i, j int) bool { return l.Items[i].Nonce() < l.Items[j].Nonce() })
		}
	}
	return d
}

func (r *runner) listSx(l *legacypool.VerifList) Sx {
	if l == nil {
		return L()
	}
	cache := L()
	if l.HasCache {
		cache = L(idList(r.ids(l.Cache), false))
	}
	return L(idList(r.ids(l.Items), false), Big(l.TotalCost.ToBig()), cache)
}

func queueOrder(d *legacypool.VerifDump, naccts int) []int {
	var qa []int
	for i := 0; i < naccts; i++ {
		if d.Queue[addrs[i]] != nil {
			qa = append(qa, i)
		}
	}
	sort.SliceStable(qa, func(x, y int) bool { return d.Beats[addrs[qa[x]]].Before(d.Beats[addrs[qa[y]]]) })
	return qa
}

func (r *runner) dumpSx(d *legacypool.VerifDump) Sx {
	var pend, queue, pn, order []Sx
	for i := 0; i < r.naccts; i++ {
		pend = append(pend, r.listSx(d.Pending[addrs[i]]))
		queue = append(queue, r.listSx(d.Queue[addrs[i]]))
		pn = append(pn, U(r.pool.Nonce(addrs[i])))
	}
	for _, a := range queueOrder(d, r.naccts) {
		order = append(order, I(int64(a)))
	}
	return L(L(pend...), L(queue...), L(pn...), idList(r.ids(d.All), true), I(int64(d.Slots)),
		idList(r.ids(d.Urgent), true), idList(r.ids(d.Floating), true), I(d.Stales), L(order...), I(0), I(0))
}

func cost(tx *types.Transaction) *big.Int { return tx.Cost() }

// oracle evaluates PoolInv directly on the dump against the fake chain state at the pool's head.
func (r *runner) oracle(d *legacypool.VerifDump, head *blockSpec, afterCycle bool) {
	seen := map[common.Hash]string{}
	slots := 0
	npending, nqueued := 0, 0
	allAS := true
	for i := 0; i < r.naccts; i++ {
		a := addrs[i]
		stNonce, bal := head.nonces[i], new(big.Int).SetUint64(head.bals[i])
		nonces := map[uint64]bool{}
		if p := d.Pending[a]; p != nil {
			if len(p.Items) == 0 {
				r.fail("empty pending list kept for account %d", i)
			}
			npending += len(p.Items)
			if uint64(len(p.Items)) > r.cfg.AccountSlots {
				allAS = false
			}
			tot := new(big.Int)
			for k, tx := range p.Items {
				from, _ := types.Sender(types.LatestSigner(params.TestChainConfig), tx)
				if from != a {
					r.fail("pending tx of account %d signed by someone else", i)
				}
				if tx.Nonce() != stNonce+uint64(k) {
					if r.gapKnown[i] && p.Items[0].Nonce() == stNonce {
						// interior gap, front nonce = state nonce, after a Reset that lowered the nonce below the
						// pending txs and whose reinjection left a dropped tx of this account out of the pool
						r.known[knownGap] = true
						r.tags["finding_gap"] = true
						break
					}
					r.fail("pending_gapless: account %d pending nonces %v, state nonce %d", i, nonceList(p.Items), stNonce)
					break
				}
			}
			for _, tx := range p.Items {
				if cost(tx).Cmp(bal) > 0 {
					r.fail("pending_affordable: account %d tx nonce %d costs %v > balance %v", i, tx.Nonce(), cost(tx), bal)
				}
				if tx.Gas() > head.gaslimit {
					r.fail("pending_affordable: account %d tx gas %d > block gas limit %d", i, tx.Gas(), head.gaslimit)
				}
				tot.Add(tot, cost(tx))
				nonces[tx.Nonce()] = true
				if w, dup := seen[tx.Hash()]; dup {
					r.fail("tx in two places: pending and %s", w)
				}
				seen[tx.Hash()] = "pending"
				slots += legacypool.VerifNumSlots(tx)
			}
			if tot.Cmp(p.TotalCost.ToBig()) != 0 {
				r.fail("pending totalcost %v != sum of costs %v (account %d)", p.TotalCost, tot, i)
			}
			if tot.Cmp(bal) > 0 {
				r.tags["overdraft"] = true // cumulative cost above balance: refuted clause, recorded only
			}
			if !p.Strict {
				r.fail("pending list not strict")
			}
		}
		if r.pool.Nonce(a) != stNonce+uint64(len(txsOf(d.Pending[a]))) {
			if r.gapKnown[i] { // consequence of the interior gap (setAll / Ready below the pending nonce)
				r.known[knownGap] = true
			} else {
				r.fail("pending nonce of account %d is %d, want state nonce %d + %d pending", i, r.pool.Nonce(a), stNonce, len(txsOf(d.Pending[a])))
			}
		}
		if q := d.Queue[a]; q != nil {
			if len(q.Items) == 0 {
				r.fail("empty queue list kept for account %d", i)
			}
			nqueued += len(q.Items)
			tot := new(big.Int)
			for _, tx := range q.Items {
				from, _ := types.Sender(types.LatestSigner(params.TestChainConfig), tx)
				if from != a {
					r.fail("queued tx of account %d signed by someone else", i)
				}
				if nonces[tx.Nonce()] {
					r.fail("pending_queue_disjoint: account %d nonce %d both pending and queued", i, tx.Nonce())
				}
				tot.Add(tot, cost(tx))
				if w, dup := seen[tx.Hash()]; dup {
					r.fail("pending_queue_disjoint: tx both queued and %s", w)
				}
				seen[tx.Hash()] = "queue"
				slots += legacypool.VerifNumSlots(tx)
			}
			if tot.Cmp(q.TotalCost.ToBig()) != 0 {
				r.fail("queue totalcost %v != sum of costs %v (account %d)", q.TotalCost, tot, i)
			}
			if _, ok := d.Beats[a]; !ok {
				r.fail("queued account %d without heartbeat", i)
			}
		} else if _, ok := d.Beats[a]; ok {
			r.fail("heartbeat without queue for account %d", i)
		}
		r.cacheOK("pending", i, d.Pending[a])
		r.cacheOK("queue", i, d.Queue[a])
		has := d.Pending[a] != nil || d.Queue[a] != nil
		if has != r.res.held[a] {
			r.fail("reservation of account %d is %v but it has pooled txs = %v", i, r.res.held[a], has)
		}
	}
	// all_is_union
	if len(d.All) != len(seen) {
		r.fail("all_is_union: lookup has %d txs, pending+queue have %d", len(d.All), len(seen))
	}
	for _, tx := range d.All {
		if _, ok := seen[tx.Hash()]; !ok {
			r.fail("all_is_union: tx %d in lookup but neither pending nor queued", r.idOf[tx.Hash()])
		}
	}
	if slots != d.Slots {
		r.fail("slots counter %d != %d", d.Slots, slots)
	}
	// every pooled tx can be found by the price heaps
	priced := map[common.Hash]bool{}
	for _, tx := range d.Urgent {
		priced[tx.Hash()] = true
	}
	for _, tx := range d.Floating {
		priced[tx.Hash()] = true
	}
	for _, tx := range d.All {
		if !priced[tx.Hash()] {
			r.fail("priced: pooled tx %d is in neither price heap", r.idOf[tx.Hash()])
		}
	}
	for _, f := range r.res.faults {
		r.fail("reserver: %s", f)
	}
	if afterCycle {
		if uint64(nqueued) > r.cfg.GlobalQueue {
			r.fail("limits: %d queued > GlobalQueue %d after maintenance", nqueued, r.cfg.GlobalQueue)
		}
		if uint64(npending) > r.cfg.GlobalSlots && !allAS {
			r.fail("limits: %d pending > GlobalSlots %d with an account above AccountSlots", npending, r.cfg.GlobalSlots)
		}
	}
	if len(d.All) > r.maxPooled {
		r.maxPooled = len(d.All)
	}
}

// sameListing: the listing handed out by a public path equals the indexed set of the account:
// same hashes, strictly ascending nonces (hence no duplicate nonce).
func (r *runner) sameListing(what string, acct int, got types.Transactions, l *legacypool.VerifList) {
	want := txsOf(l)
	ok := len(got) == len(want)
	for i := 0; ok && i < len(got); i++ {
		ok = got[i].Hash() == want[i].Hash() && (i == 0 || got[i-1].Nonce() < got[i].Nonce())
	}
	if !ok {
		r.fail("listing != index: %s of account %d lists tx ids %v (nonces %v), the pool holds %v (nonces %v)",
			what, acct, r.ids(got), nonceList(got), r.ids(want), nonceList(want))
	}
}

// cacheOK: a non-nil sorted cache must be the nonce-sorted item set (it is what Flatten returns)
func (r *runner) cacheOK(what string, acct int, l *legacypool.VerifList) {
	if l != nil && l.HasCache {
		r.sameListing(what+" sorted cache", acct, l.Cache, l)
	}
}

func txsOf(l *legacypool.VerifList) types.Transactions {
	if l == nil {
		return nil
	}
	return l.Items
}

func nonceList(txs types.Transactions) []uint64 {
	out := make([]uint64, len(txs))
	for i, tx := range txs {
		out[i] = tx.Nonce()
	}
	return out
}

// replacement_requires_bump, for a single accepted tx
func (r *runner) checkBump(pre, postDump *legacypool.VerifDump, nt *types.Transaction, from int) {
	post := map[common.Hash]bool{}
	for _, tx := range postDump.All {
		post[tx.Hash()] = true
	}
	check := func(l *legacypool.VerifList) {
		for _, old := range txsOf(l) {
			if old.Nonce() != nt.Nonce() || old.Hash() == nt.Hash() {
				continue
			}
			r.tags["replace"] = true
			thr := func(v *big.Int) *big.Int {
				x := new(big.Int).Mul(v, new(big.Int).SetUint64(100+r.bump))
				return x.Div(x, big.NewInt(100))
			}
			if nt.GasFeeCap().Cmp(old.GasFeeCap()) <= 0 || nt.GasTipCap().Cmp(old.GasTipCap()) <= 0 ||
				nt.GasFeeCap().Cmp(thr(old.GasFeeCap())) < 0 || nt.GasTipCap().Cmp(thr(old.GasTipCap())) < 0 {
				if uint64(pre.Slots+legacypool.VerifNumSlots(nt)) > r.cfg.GlobalSlots+r.cfg.GlobalQueue && !post[old.Hash()] && post[nt.Hash()] {
					// the new tx entered through the pool-full path of pool.add, its same-sender same-nonce
					// predecessor was evicted by pricedList.Discard and the new one inserted afresh, so
					// list.Add's bump check was never reached (C41_replacement_requires_bump_refuted)
					r.known[knownBump] = true
					r.tags["finding_bump_evict"] = true
					continue
				}
				r.fail("replacement_requires_bump: tx %d (cap %v tip %v) replaced tx %d (cap %v tip %v) with bump %d%%",
					r.idOf[nt.Hash()], nt.GasFeeCap(), nt.GasTipCap(), r.idOf[old.Hash()], old.GasFeeCap(), old.GasTipCap(), r.bump)
			}
		}
	}
	check(pre.Pending[addrs[from]])
	check(pre.Queue[addrs[from]])
}

func run(c Sx) (res Result) {
	top := AsList(c)
	if len(top) != 4 {
		panic("hxlib: case must have 4 parts")
	}
	conf := ulist(top[0])
	if len(conf) != 7 {
		panic("hxlib: config must have 7 numbers")
	}
	r := &runner{bump: conf[0], naccts: int(conf[5]), txs: map[uint64]*types.Transaction{}, specOf: map[uint64]*txSpec{},
		idOf: map[common.Hash]uint64{}, hdrOf: map[uint64]*types.Header{}, bspec: map[uint64]*blockSpec{}, tags: map[string]bool{}}
	r.known = map[string]bool{}
	if r.naccts < 1 || r.naccts > maxAccts {
		panic("hxlib: account count out of range")
	}
	r.cfg = legacypool.Config{NoLocals: true, Journal: "", PriceLimit: 1, PriceBump: conf[0], AccountSlots: conf[1], GlobalSlots: conf[2],
		AccountQueue: conf[3], GlobalQueue: conf[4], Lifetime: 1000 * time.Hour, Rejournal: time.Hour}
	if conf[0] < 1 || conf[1] < 1 || conf[2] < 1 || conf[3] < 1 || conf[4] < 1 {
		panic("hxlib: config values must be >= 1 (sanitize would change them)")
	}
	signer := types.LatestSigner(params.TestChainConfig)
	to := common.Address{0x42}
	for _, s := range AsList(top[2]) {
		f := ulist(s)
		if len(f) != 9 {
			panic("hxlib: tx must have 9 fields")
		}
		sp := &txSpec{f[0], f[1], f[2], f[3], f[4], f[5], f[6], f[7], f[8]}
		if int(sp.from) >= r.naccts || sp.id > 0xffff || sp.slots < 1 || sp.slots > 5 || sp.intr != intrinsic(sp.slots) || r.txs[sp.id] != nil {
			panic("hxlib: bad tx spec")
		}
		tx, err := types.SignNewTx(keys[sp.from], signer, &types.DynamicFeeTx{
			ChainID: params.TestChainConfig.ChainID, Nonce: sp.nonce, GasTipCap: new(big.Int).SetUint64(sp.tip),
			GasFeeCap: new(big.Int).SetUint64(sp.feecap), Gas: sp.gas, To: &to, Value: new(big.Int).SetUint64(sp.value),
			Data: txData(sp.id, sp.slots)})
		if err != nil {
			panic("hxlib: signing failed")
		}
		if sp.slots <= 4 && uint64(legacypool.VerifNumSlots(tx)) != sp.slots {
			panic("hxlib: slots attribute does not match numSlots")
		}
		r.txs[sp.id], r.specOf[sp.id], r.idOf[tx.Hash()] = tx, sp, sp.id
	}
	r.chain = &fakeChain{blocks: map[common.Hash]*types.Block{}, specs: map[common.Hash]*blockSpec{}, naccts: r.naccts}
	blockOf := map[uint64]*types.Block{}
	for bi, s := range AsList(top[1]) {
		l := AsList(s)
		if len(l) != 8 {
			panic("hxlib: block must have 8 fields")
		}
		b := &blockSpec{id: u(l[0]), parent: u(l[1]), num: u(l[2]), gaslimit: u(l[3]), basefee: u(l[4]), nonces: ulist(l[5]), bals: ulist(l[6]), txids: ulist(l[7])}
		if len(b.nonces) != r.naccts || len(b.bals) != r.naccts || b.gaslimit%2 != 0 || blockOf[b.id] != nil {
			panic("hxlib: bad block spec")
		}
		h := &types.Header{Number: new(big.Int).SetUint64(b.num), Difficulty: new(big.Int), GasLimit: b.gaslimit, GasUsed: b.gaslimit / 2,
			BaseFee: new(big.Int).SetUint64(b.basefee), Time: b.num * 12, Extra: []byte{byte(b.id >> 8), byte(b.id)}}
		if bi > 0 {
			p := blockOf[b.parent]
			if p == nil || p.NumberU64()+1 != b.num {
				panic("hxlib: block parent missing or number inconsistent")
			}
			h.ParentHash = p.Hash()
		} else if b.num != 0 {
			panic("hxlib: genesis must have number 0")
		}
		var btxs types.Transactions
		for _, id := range b.txids {
			if r.txs[id] == nil {
				panic("hxlib: block references unknown tx")
			}
			btxs = append(btxs, r.txs[id])
		}
		blk := types.NewBlock(h, &types.Body{Transactions: btxs}, nil, trie.NewStackTrie(nil))
		blockOf[b.id] = blk
		r.chain.blocks[blk.Hash()] = blk
		r.chain.specs[blk.Hash()] = b
		r.hdrOf[b.id] = blk.Header()
		r.bspec[b.id] = b
		if bi == 0 {
			r.chain.genesis = blk
			r.chain.head = blk.Header()
		}
	}
	if r.chain.genesis == nil {
		panic("hxlib: no genesis block")
	}
	r.res = &reserver{held: map[common.Address]bool{}}
	r.pool = legacypool.New(r.cfg, r.chain)
	if err := r.pool.Init(conf[6], r.chain.head, r.res); err != nil {
		panic("hxlib: pool init failed")
	}
	defer r.pool.Close()

	head := r.bspec[u(AsList(AsList(top[1])[0])[0])]
	headHdr := r.chain.head
	var obs []Sx
	nops := 0
	for _, o := range AsList(top[3]) {
		f := ulist(o)
		if len(f) == 0 {
			panic("hxlib: empty op")
		}
		t0 := time.Now()
		pre := r.dump()
		var errs []Sx
		afterCycle := false
		var bumpTx *types.Transaction
		bumpFrom := 0
		var lostMissing [maxAccts]bool // Reset: a dropped (lost) tx of the account is not pooled afterwards
		var regressed [maxAccts]bool   // Reset: state nonce moved below the account's lowest pending nonce
		var lost []uint64
		switch f[0] {
		case 0:
			var batch []*types.Transaction
			for _, id := range f[1:] {
				if r.txs[id] == nil {
					panic("hxlib: op references unknown tx")
				}
				batch = append(batch, r.txs[id])
			}
			if len(batch) == 0 {
				panic("hxlib: empty Add")
			}
			es := r.pool.Add(batch, true)
			for i, e := range es {
				cl := errClass(e)
				errs = append(errs, I(cl))
				r.tags[fmt.Sprintf("err%d", cl)] = true
				if cl == 99 {
					r.fail("unclassified error from Add: %v", e)
				}
				if cl == 0 {
					afterCycle = true
					if len(batch) == 1 {
						bumpTx, bumpFrom = batch[i], int(r.specOf[f[1]].from)
					}
				}
			}
			if len(batch) > 1 {
				r.tags["batch"] = true
			}
		case 1:
			if len(f) != 2 || r.bspec[f[1]] == nil {
				panic("hxlib: bad reset op")
			}
			nb := r.bspec[f[1]]
			newHdr := r.hdrOf[f[1]]
			if newHdr.ParentHash != headHdr.Hash() {
				r.tags["reorg"] = true
			}
			for i := 0; i < r.naccts; i++ {
				if nb.nonces[i] < head.nonces[i] {
					r.tags["nonce_regress"] = true
				}
			}
			for i := 0; i < r.naccts; i++ {
				if p := pre.Pending[addrs[i]]; p != nil && len(p.Items) > 0 && nb.nonces[i] < p.Items[0].Nonce() {
					regressed[i] = true
					r.tags["regress_below_pending"] = true
				}
			}
			lost = r.lostTxs(head, nb)
			r.chain.head = newHdr
			r.pool.Reset(headHdr, newHdr)
			head, headHdr = nb, newHdr
			afterCycle = true
			r.tags["reset"] = true
		case 2:
			if len(f) != 2 {
				panic("hxlib: bad tip op")
			}
			r.pool.SetGasTip(new(big.Int).SetUint64(f[1]))
			r.tags["settip"] = true
			// SetGasTip removes in map order, which decides which sorted caches survive: list
			// everything afterwards so that all caches are filled (mirrored in coq/Run/C41.v)
			r.pool.Content()
		case 3, 4, 5, 6:
			r.tags["read"] = true
		default:
			panic("hxlib: unknown op")
		}
		// the public listing paths; checked against the index (white-box dump) below
		var out Sx
		type listed struct {
			what string
			acct int
			txs  types.Transactions
			pend bool
		}
		var listings []listed
		switch f[0] {
		case 3:
			pend, queued := r.pool.Content()
			var rows []Sx
			for i := 0; i < r.naccts; i++ {
				rows = append(rows, L(idList(r.ids(pend[addrs[i]]), false), idList(r.ids(queued[addrs[i]]), false)))
				listings = append(listings, listed{"Content pending", i, pend[addrs[i]], true}, listed{"Content queued", i, queued[addrs[i]], false})
			}
			out = L(rows...)
		case 4:
			if len(f) != 2 || int(f[1]) >= r.naccts {
				panic("hxlib: bad ContentFrom op")
			}
			pend, queued := r.pool.ContentFrom(addrs[f[1]])
			out = L(idList(r.ids(pend), false), idList(r.ids(queued), false))
			listings = append(listings, listed{"ContentFrom pending", int(f[1]), pend, true}, listed{"ContentFrom queued", int(f[1]), queued, false})
		case 5:
			lazies, _ := r.pool.Pending(txpool.PendingFilter{})
			var rows []Sx
			for i := 0; i < r.naccts; i++ {
				var txs types.Transactions
				for _, lz := range lazies[addrs[i]] {
					txs = append(txs, lz.Tx)
				}
				rows = append(rows, idList(r.ids(txs), false))
				listings = append(listings, listed{"Pending", i, txs, true})
			}
			out = L(rows...)
		case 6:
			np, nq := r.pool.Stats()
			out = L(I(int64(np)), I(int64(nq)))
		}
		nops++
		d := r.dump()
		for _, li := range listings {
			if li.pend {
				r.sameListing(li.what, li.acct, li.txs, d.Pending[addrs[li.acct]])
			} else {
				r.sameListing(li.what, li.acct, li.txs, d.Queue[addrs[li.acct]])
			}
		}
		if f[0] == 6 {
			np, nq := 0, 0
			for i := 0; i < r.naccts; i++ {
				np += len(txsOf(d.Pending[addrs[i]]))
				nq += len(txsOf(d.Queue[addrs[i]]))
			}
			if a, b := r.pool.Stats(); a != np || b != nq {
				r.fail("Stats reports %d/%d, the pool holds %d pending / %d queued", a, b, np, nq)
			}
		}
		// may the queue truncation of this op have depended on Go's map iteration order?
		qa := queueOrder(d, r.naccts)
		nq, fresh := 0, len(qa) > 0
		for _, a := range qa {
			nq += len(d.Queue[addrs[a]].Items)
			if d.Beats[addrs[a]].Before(t0) {
				fresh = false
			}
		}
		// SetGasTip removes txs in map order, which decides whether a queue entry (and its heartbeat)
		// is deleted and recreated or survives; no truncation runs, all heartbeats are re-issued.
		isTip := f[0] == 2
		if !isTip && fresh && uint64(nq) == r.cfg.GlobalQueue {
			obs = append(obs, L(I(99)))
			r.tags["amb"] = true
			break
		}
		// re-issue the heartbeats written during this op in account order
		base := time.Now()
		k := 0
		for i := 0; i < r.naccts; i++ {
			if b, ok := d.Beats[addrs[i]]; ok && (isTip || !b.Before(t0)) {
				k++
				nb := base.Add(time.Duration(k))
				r.pool.VerifSetBeat(addrs[i], nb)
				d.Beats[addrs[i]] = nb
			}
		}
		for k > 0 && !time.Now().After(base.Add(time.Duration(k))) {
		}
		// price-heap normalisation (mirrored in coq/Run/C41.v): when truncatePending may have
		// processed several offenders of equal length, the identity of the stale heap entries
		// depends on Go's map iteration order; rebuild the heaps so later ops do not.
		nAS, npend := 0, 0
		for i := 0; i < r.naccts; i++ {
			n := len(txsOf(d.Pending[addrs[i]]))
			npend += n
			if uint64(n) >= r.cfg.AccountSlots {
				nAS++
			}
		}
		if d.Stales != 0 && nAS >= 2 && uint64(npend+r.naccts) > r.cfg.GlobalSlots {
			r.pool.VerifReheap()
			d = r.dump()
			r.tags["reheap_norm"] = true
		}
		if len(lost) > 0 {
			r.tags["reinject"] = true
			pooled := map[common.Hash]bool{}
			for _, tx := range d.All {
				pooled[tx.Hash()] = true
			}
			for _, id := range lost {
				if !pooled[r.txs[id].Hash()] {
					lostMissing[r.specOf[id].from] = true
				}
			}
		}
		for i := 0; i < r.naccts; i++ {
			if regressed[i] && lostMissing[i] {
				r.gapKnown[i] = true
			}
		}
		if bumpTx != nil {
			r.checkBump(pre, d, bumpTx, bumpFrom)
		}
		r.oracle(d, head, afterCycle)
		r.noteEvents(pre, d)
		if out == nil {
			out = L(errs...)
		}
		obs = append(obs, L(out, r.dumpSx(d)))
	}
	res.Obs = L(obs...)
	for t := range r.tags {
		res.Tags = append(res.Tags, t)
	}
	res.Tags = append(res.Tags, fmt.Sprintf("ops%d", min(nops/5*5, 40)), fmt.Sprintf("accts%d", r.naccts))
	res.NonTrivial = nops >= 5 && r.maxPooled >= 3
	if len(r.fails) > 0 {
		res.Oracle = fmt.Sprint(r.fails) // anything else than an open known finding is reported on its own
	} else if len(r.known) > 0 {
		var ks []string
		for k := range r.known {
			ks = append(ks, k)
		}
		sort.Strings(ks)
		res.Oracle = fmt.Sprint(ks)
	}
	return res
}

// lostTxs mirrors which txs a Reset(old -> new) has to reinject: those of the blocks dropped
// from the old branch that are not in the blocks added by the new branch (harness-side, on specs).
func (r *runner) lostTxs(old, nw *blockSpec) []uint64 {
	if old.id == nw.parent && nw.id != 0 {
		return nil
	}
	var disc []uint64
	incl := map[uint64]bool{}
	rem, add := old, nw
	for rem.num > add.num {
		disc = append(disc, rem.txids...)
		rem = r.bspec[rem.parent]
	}
	for add.num > rem.num {
		for _, id := range add.txids {
			incl[id] = true
		}
		add = r.bspec[add.parent]
	}
	for rem.id != add.id {
		disc = append(disc, rem.txids...)
		for _, id := range add.txids {
			incl[id] = true
		}
		rem, add = r.bspec[rem.parent], r.bspec[add.parent]
	}
	var out []uint64
	for _, id := range disc {
		if !incl[id] {
			out = append(out, id)
		}
	}
	return out
}

// noteEvents derives input-distribution tags from the state change of one op.
func (r *runner) noteEvents(pre, post *legacypool.VerifDump) {
	postHas := map[common.Hash]bool{}
	for _, tx := range post.All {
		postHas[tx.Hash()] = true
	}
	for a, l := range pre.Pending {
		for _, tx := range l.Items {
			if !postHas[tx.Hash()] {
				r.tags["pending_dropped"] = true
			} else if q := post.Queue[a]; q != nil {
				for _, qt := range q.Items {
					if qt.Hash() == tx.Hash() {
						r.tags["demoted"] = true
					}
				}
			}
		}
	}
	for a, l := range pre.Queue {
		for _, tx := range l.Items {
			if !postHas[tx.Hash()] {
				r.tags["queued_dropped"] = true
			} else if p := post.Pending[a]; p != nil {
				for _, pt := range p.Items {
					if pt.Hash() == tx.Hash() {
						r.tags["promoted"] = true
					}
				}
			}
		}
	}
	if len(post.Floating) > 0 {
		r.tags["floating"] = true
	}
}

// ---------------------------------------------------------------- generator

type genAcct struct {
	byNonce map[uint64][]*txSpec // submitted txs per nonce (any version)
}

type gen struct {
	r       *Rng
	naccts  int
	txs     []*txSpec
	blocks  []*blockSpec
	ops     []Sx
	head    *blockSpec
	accts   []*genAcct
	usedCap map[uint64]bool
	bump    uint64
	gastip  uint64
	style   int
}

func (g *gen) newTx(from int, nonce uint64) *txSpec {
	r := g.r
	id := uint64(len(g.txs) + 1)
	slots := uint64(1)
	switch x := r.Intn(100); {
	case x < 8:
		slots = 2
	case x < 11:
		slots = uint64(r.Range(3, 4))
	case x < 12:
		slots = 5
	}
	intr := intrinsic(slots)
	gas := intr + uint64(r.Intn(4))*7000
	switch x := r.Intn(100); {
	case x < 4:
		gas = intr - 1
	case x < 7:
		gas = g.head.gaslimit + uint64(r.Range(1, 3))*2000
	case x < 12:
		gas = 70000 + uint64(r.Intn(50000)) // above a lowered block gas limit of 60000
	}
	f := uint64(r.Range(1, 40))
	feecap := f*1000 + id
	for g.usedCap[feecap] {
		feecap++
	}
	tip := uint64(r.Range(1, int(f*1000)))
	switch x := r.Intn(100); {
	case x < 10:
		tip = feecap
	case x < 14:
		tip = feecap + uint64(r.Range(1, 50))
	case x < 18:
		tip = 0
	case x < 45:
		tip = uint64(r.Range(1, 12))
	}
	value := uint64(r.Intn(1000))
	if r.Chance(1, 10) {
		value = uint64(r.Range(1, 30)) * 100_000_000
	}
	t := &txSpec{id: id, from: uint64(from), nonce: nonce, gas: gas, feecap: feecap, tip: tip, value: value, slots: slots, intr: intr}
	g.usedCap[feecap] = true
	return t
}

// replacement of an already submitted tx with a chosen price relation
func (g *gen) replacement(old *txSpec) *txSpec {
	r := g.r
	t := g.newTx(int(old.from), old.nonce)
	t.slots, t.intr, t.gas = old.slots, old.intr, old.gas
	thr := func(v uint64) uint64 { return v * (100 + g.bump) / 100 }
	var feecap, tip uint64
	switch r.Intn(8) {
	case 0: // cheaper
		feecap, tip = old.feecap-uint64(r.Intn(int(old.feecap/2+1))), old.tip
	case 1: // fee cap bumped, tip not
		feecap, tip = thr(old.feecap)+uint64(r.Intn(500)), old.tip
	case 2: // exactly at both thresholds
		feecap, tip = thr(old.feecap), thr(old.tip)
	case 3: // one below the fee-cap threshold
		feecap, tip = thr(old.feecap)-1, thr(old.tip)+1
	case 4: // one below the tip threshold
		feecap, tip = thr(old.feecap)+uint64(r.Intn(3)), thr(old.tip)-1
	case 5: // small raise, below the bump
		feecap, tip = old.feecap+1+uint64(r.Intn(int(old.feecap/20+1))), old.tip+1
	default: // generous
		feecap, tip = thr(old.feecap)*uint64(r.Range(1, 2))+uint64(r.Intn(3000)), thr(old.tip)+uint64(r.Intn(100))
	}
	if feecap == 0 {
		feecap = 1
	}
	for g.usedCap[feecap] {
		feecap++
	}
	if tip > feecap && !r.Chance(1, 20) {
		tip = feecap
	}
	delete(g.usedCap, t.feecap)
	t.feecap, t.tip = feecap, tip
	g.usedCap[feecap] = true
	return t
}

func (g *gen) submit(t *txSpec) {
	g.txs = append(g.txs, t)
	a := g.accts[t.from]
	a.byNonce[t.nonce] = append(a.byNonce[t.nonce], t)
}

func (g *gen) pickBalance() uint64 {
	r := g.r
	switch x := r.Intn(100); {
	case x < 5:
		return 0
	case x < 45:
		return uint64(r.Range(1, 30)) * 100_000_000
	case x < 55:
		return uint64(r.Range(1, 30)) * 1_000_000_000
	}
	return 1_000_000_000_000_000_000
}

func (g *gen) pickGasLimit() uint64 {
	switch x := g.r.Intn(100); {
	case x < 10:
		return 60000
	case x < 16:
		return 200000
	}
	return 1_000_000
}

// child creates a block on top of parent, including for some accounts their next submitted txs
func (g *gen) child(parent *blockSpec) *blockSpec {
	r := g.r
	b := &blockSpec{id: uint64(len(g.blocks)), parent: parent.id, num: parent.num + 1, gaslimit: g.pickGasLimit(),
		basefee: uint64(r.Intn(30)) * 1000, nonces: append([]uint64{}, parent.nonces...), bals: append([]uint64{}, parent.bals...)}
	if r.Chance(1, 3) {
		b.basefee = 0
	}
	for a := 0; a < g.naccts; a++ {
		switch x := r.Intn(100); {
		case x < 40:
			k := r.Range(1, 3)
			for j := 0; j < k; j++ {
				vs := g.accts[a].byNonce[b.nonces[a]]
				if len(vs) == 0 {
					break
				}
				t := vs[r.Intn(len(vs))]
				b.txids = append(b.txids, t.id)
				b.nonces[a]++
			}
		case x < 48: // txs mined without ever having been submitted to the pool
			for k := r.Range(1, 2); k > 0; k-- {
				t := g.newTx(a, b.nonces[a])
				t.slots, t.intr = 1, intrinsic(1)
				t.gas = t.intr
				if t.tip > t.feecap {
					t.tip = t.feecap
				}
				g.txs = append(g.txs, t)
				b.txids = append(b.txids, t.id)
				b.nonces[a]++
			}
		}
		if r.Chance(3, 10) {
			b.bals[a] = g.pickBalance()
		}
	}
	g.blocks = append(g.blocks, b)
	return b
}

func (g *gen) byID(id uint64) *blockSpec { return g.blocks[id] }

func (g *gen) opAdd() {
	r := g.r
	n := 1
	if r.Chance(1, 4) {
		n = r.Range(2, 4)
	}
	ids := []Sx{I(0)}
	replAcct := -1
	for i := 0; i < n; i++ {
		a := r.Intn(g.naccts)
		if g.style == 1 && r.Chance(3, 4) {
			a = 0
		}
		acc := g.accts[a]
		st := g.head.nonces[a]
		// resubmit a known tx
		if len(g.txs) > 0 && r.Chance(1, 25) {
			ids = append(ids, U(g.txs[r.Intn(len(g.txs))].id))
			continue
		}
		// replacement
		if r.Chance(1, 4) || (g.style == 2 && r.Chance(1, 2)) {
			var cands []*txSpec
			for nn, vs := range acc.byNonce {
				if nn >= st {
					cands = append(cands, vs[len(vs)-1])
				}
			}
			if len(cands) > 0 {
				sort.Slice(cands, func(i, j int) bool { return cands[i].id < cands[j].id })
				t := g.replacement(cands[r.Intn(len(cands))])
				g.submit(t)
				ids = append(ids, U(t.id))
				replAcct = a
				continue
			}
		}
		// next unused nonce of this account, mostly; sometimes gapped or stale
		next := st
		for len(acc.byNonce[next]) > 0 {
			next++
		}
		nonce := next
		switch x := r.Intn(100); {
		case x < 22:
			nonce = next + uint64(r.Range(1, 3))
		case x < 27 && st > 0:
			nonce = st - 1
		case x < 37:
			nonce = st + uint64(r.Intn(6))
		}
		t := g.newTx(a, nonce)
		g.submit(t)
		ids = append(ids, U(t.id))
	}
	// listings right before and right after a replacement (the sorted caches are then filled)
	if replAcct >= 0 && r.Chance(3, 4) {
		g.readOp(replAcct)
	}
	g.ops = append(g.ops, L(ids...))
	if replAcct >= 0 && r.Chance(3, 4) {
		g.readOp(replAcct)
	}
}

// readOp emits one of the public listing calls
func (g *gen) readOp(a int) {
	switch x := g.r.Intn(10); {
	case x < 4:
		g.ops = append(g.ops, L(I(4), I(int64(a))))
	case x < 7:
		g.ops = append(g.ops, L(I(3)))
	case x < 9:
		g.ops = append(g.ops, L(I(5)))
	default:
		g.ops = append(g.ops, L(I(6)))
	}
}

// plainTx is a tx that passes the stateless checks
func (g *gen) plainTx(a int, nonce uint64) *txSpec {
	t := g.newTx(a, nonce)
	t.slots, t.intr = 1, intrinsic(1)
	t.gas = t.intr
	if t.tip > t.feecap || t.tip == 0 {
		t.tip = t.feecap
	}
	t.value = uint64(g.r.Intn(1000))
	return t
}

// opGappedReplace builds a gapped run of future txs for one account (e.g. nonces n, n+2, n+3),
// lists the pool, replaces one of them with a sufficient bump, and lists again
func (g *gen) opGappedReplace(pending bool) {
	r := g.r
	a := r.Intn(g.naccts)
	acc := g.accts[a]
	next := g.head.nonces[a]
	for len(acc.byNonce[next]) > 0 {
		next++
	}
	base := next
	if !pending {
		base = next + uint64(r.Range(1, 2)) // nothing submitted at `next`: the run stays queued
	}
	var run []*txSpec
	n := base
	for k := r.Range(3, 5); k > 0; k-- {
		t := g.plainTx(a, n)
		g.submit(t)
		run = append(run, t)
		g.ops = append(g.ops, L(I(0), U(t.id)))
		n++
		if !pending && r.Chance(1, 2) {
			n += uint64(r.Range(1, 2))
		}
		if r.Chance(1, 4) {
			g.readOp(a)
		}
	}
	for reps := r.Range(1, 2); reps > 0; reps-- {
		if r.Chance(5, 6) {
			g.readOp(a)
		}
		old := run[r.Intn(len(run))]
		if r.Chance(2, 3) && len(run) > 1 {
			old = run[1+r.Intn(len(run)-1)]
		}
		thr := func(v uint64) uint64 { return v*(100+g.bump)/100 + 1 }
		t := g.plainTx(a, old.nonce)
		delete(g.usedCap, t.feecap)
		t.feecap, t.tip = thr(old.feecap)+uint64(r.Intn(50)), thr(old.tip)
		for g.usedCap[t.feecap] {
			t.feecap++
		}
		if t.tip > t.feecap {
			t.tip = t.feecap
		}
		g.usedCap[t.feecap] = true
		g.submit(t)
		for i := range run {
			if run[i] == old {
				run[i] = t
			}
		}
		g.ops = append(g.ops, L(I(0), U(t.id)))
		if r.Chance(5, 6) {
			g.readOp(a)
		}
	}
}

func (g *gen) opReset() {
	r := g.r
	var nb *blockSpec
	switch x := r.Intn(100); {
	case x < 55 || g.style == 3:
		nb = g.child(g.head)
	case x < 80: // sibling / uncle branch: reorg
		anc := g.head
		for k := r.Range(1, 3); k > 0 && anc.id != 0; k-- {
			anc = g.byID(anc.parent)
		}
		nb = g.child(anc)
		if r.Chance(1, 2) {
			nb = g.child(nb)
		}
	case x < 90: // back to an ancestor (setHead)
		nb = g.head
		for k := r.Range(1, 2); k > 0 && nb.id != 0; k-- {
			nb = g.byID(nb.parent)
		}
	default: // any known block, or the same head again
		nb = g.blocks[r.Intn(len(g.blocks))]
	}
	g.head = nb
	g.ops = append(g.ops, L(I(1), U(nb.id)))
}

func genCase(r *Rng, tier string, style int) Sx {
	g := &gen{r: r, naccts: r.Range(4, 6), usedCap: map[uint64]bool{}, bump: 10, gastip: 1, style: style}
	conf := []uint64{10, 2, 8, 3, 8}
	if r.Chance(1, 4) {
		conf = []uint64{uint64(r.Range(1, 30)), uint64(r.Range(1, 3)), uint64(r.Range(3, 10)), uint64(r.Range(1, 4)), uint64(r.Range(2, 10))}
	}
	if style == 4 { // roomy pool: no eviction, long lists
		conf = []uint64{10, 16, 64, 16, 64}
	}
	g.bump = conf[0]
	for i := 0; i < g.naccts; i++ {
		g.accts = append(g.accts, &genAcct{byNonce: map[uint64][]*txSpec{}})
	}
	gen0 := &blockSpec{id: 0, parent: 0xffff, num: 0, gaslimit: 1_000_000, basefee: 1000}
	for i := 0; i < g.naccts; i++ {
		gen0.nonces = append(gen0.nonces, uint64(r.Intn(3)))
		gen0.bals = append(gen0.bals, g.pickBalance())
	}
	g.blocks = append(g.blocks, gen0)
	g.head = gen0
	nops := r.Range(6, 28)
	if tier == "thorough" && r.Chance(1, 10) {
		nops = r.Range(30, 60)
	}
	for i := 0; i < nops; i++ {
		switch x := r.Intn(100); {
		case x < 60:
			g.opAdd()
		case x < 66:
			g.opGappedReplace(false)
		case x < 68:
			g.opGappedReplace(true)
		case x < 76:
			g.readOp(r.Intn(g.naccts))
		case x < 96:
			g.opReset()
		default:
			tip := uint64(r.Range(1, 15))
			if r.Chance(1, 3) {
				tip = uint64(r.Range(100, 20000))
			}
			g.gastip = tip
			g.ops = append(g.ops, L(I(2), U(tip)))
		}
	}
	var bl, tl []Sx
	us := func(v []uint64) Sx {
		items := make([]Sx, len(v))
		for i, x := range v {
			items[i] = U(x)
		}
		return L(items...)
	}
	for _, b := range g.blocks {
		bl = append(bl, L(U(b.id), U(b.parent), U(b.num), U(b.gaslimit), U(b.basefee), us(b.nonces), us(b.bals), us(b.txids)))
	}
	for _, t := range g.txs {
		tl = append(tl, L(U(t.id), U(t.from), U(t.nonce), U(t.gas), U(t.feecap), U(t.tip), U(t.value), U(t.slots), U(t.intr)))
	}
	return L(L(U(conf[0]), U(conf[1]), U(conf[2]), U(conf[3]), U(conf[4]), U(uint64(g.naccts)), U(1)), L(bl...), L(tl...), L(g.ops...))
}

func genAll(r *Rng, tier string, emit func(Sx)) {
	n := 320
	if tier == "thorough" {
		n = 12000
	}
	for i := 0; i < n; i++ {
		style := 0
		switch x := r.Intn(100); {
		case x < 12:
			style = 1 // one account floods
		case x < 24:
			style = 2 // replacement-heavy
		case x < 34:
			style = 3 // linear chain only (no reorgs)
		case x < 42:
			style = 4 // roomy limits
		}
		emit(genCase(r.Fork(), tier, style))
	}
}

func main() {
	Main(Family{
		ID: "C41",
		Rule: "random operation histories (6-28 ops, up to 60 in the thorough tier) over 4-6 accounts with fixed keys on a fake chain (block tree with per-block nonces/balances/gas limit/base fee): Add(sync) of single txs and batches (next, gapped and stale nonces, replacements around the price-bump threshold, multi-slot and oversized txs, low gas, tip above cap, resubmissions), Reset to child / sibling-branch / ancestor / arbitrary blocks (reinjection of dropped txs, nonce and balance changes, lowered gas limit), SetGasTip, the public listing calls Content / ContentFrom / Pending / Stats at random points and right before and after replacements (they fill the sorted caches; the white-box dump does not), and a pattern that builds a gapped future run (or a pending run) for one account and replaces a member of it with a sufficient bump between two listings; limits GlobalSlots 8 AccountSlots 2 GlobalQueue 8 AccountQueue 3 (3/4 of cases) or random small / roomy ones; adversarial styles: one flooding account, replacement-heavy, linear chain. Non-trivial: at least 5 ops executed and at least 3 txs pooled at some point; distinct = distinct case line.",
		Gen: genAll,
		Run: run,
	})
}
