// Family c43: core/txpool/txorder/ordering.go (TransactionsByPriceAndNonce over
// container/heap) vs coq/Pool/Ordering.v.
//
// case (mode bf pend script)            see coq/Run/C43.v
//   mode 0: all tx times distinct, so the yield sequence is a function of the input
//           (independent of Go's map iteration order); script of 0=Shift / 1=Pop
//   mode 1: ties in (fee, time) possible; all-Shift until empty; only the per-account
//           projections are compared (the theorem leaves ties unordered)
package main

import (
	"fmt"
	"math/big"
	"time"

	"github.com/ethereum/go-ethereum/common"
	"github.com/ethereum/go-ethereum/core/txpool"
	"github.com/ethereum/go-ethereum/core/txpool/txorder"
	"github.com/ethereum/go-ethereum/core/types"
	"github.com/holiman/uint256"

	. "gethverif/harness/hxlib"
)

var two256 = new(big.Int).Lsh(big.NewInt(1), 256)
var two160 = new(big.Int).Lsh(big.NewInt(1), 160)

type txin struct {
	id, nonce, feecap, tipcap, tm *big.Int
	ltx                           *txpool.LazyTransaction
}
type accin struct {
	acc *big.Int
	txs []*txin
}
type where struct{ a, i int }

func u256(v *big.Int, what string) *uint256.Int {
	if v.Sign() < 0 || v.Cmp(two256) >= 0 {
		panic("hxlib: " + what + " out of uint256 range")
	}
	return uint256.MustFromBig(v)
}

func decode(c Sx) (mode int, bf *big.Int, accs []*accin, script []int) {
	l := AsList(c)
	if len(l) != 4 {
		panic("hxlib: case must have 4 fields")
	}
	mode = AsInt(l[0])
	bfl := AsList(l[1])
	if len(bfl) > 1 {
		panic("hxlib: bad base fee")
	}
	if len(bfl) == 1 {
		bf = AsBig(bfl[0])
		u256(bf, "base fee")
	}
	for _, a := range AsList(l[2]) {
		al := AsList(a)
		if len(al) != 2 {
			panic("hxlib: bad account")
		}
		ai := &accin{acc: AsBig(al[0])}
		if ai.acc.Sign() < 0 || ai.acc.Cmp(two160) >= 0 {
			panic("hxlib: account out of range")
		}
		for _, t := range AsList(al[1]) {
			tl := AsList(t)
			if len(tl) != 5 {
				panic("hxlib: bad tx")
			}
			ti := &txin{AsBig(tl[0]), AsBig(tl[1]), AsBig(tl[2]), AsBig(tl[3]), AsBig(tl[4]), nil}
			u256(ti.id, "id")
			if ti.nonce.Sign() < 0 {
				panic("hxlib: negative nonce")
			}
			if !ti.tm.IsInt64() {
				panic("hxlib: time out of int64 range")
			}
			ti.ltx = &txpool.LazyTransaction{
				Hash:      common.BigToHash(ti.id),
				Time:      time.Unix(0, ti.tm.Int64()),
				GasFeeCap: u256(ti.feecap, "feecap"),
				GasTipCap: u256(ti.tipcap, "tipcap"),
				Gas:       21000,
			}
			if ti.nonce.IsUint64() {
				// resolved transaction attached, so that the nonce is readable from what is yielded
				ti.ltx.Tx = types.NewTx(&types.DynamicFeeTx{Nonce: ti.nonce.Uint64(), GasTipCap: new(big.Int).Set(ti.tipcap),
					GasFeeCap: new(big.Int).Set(ti.feecap), Gas: 21000})
			}
			ai.txs = append(ai.txs, ti)
		}
		accs = append(accs, ai)
	}
	for _, o := range AsList(l[3]) {
		v := AsInt(o)
		if v != 0 && v != 1 {
			panic("hxlib: bad op")
		}
		script = append(script, v)
	}
	return
}

func affordable(t *txin, bf *big.Int) bool { return bf == nil || t.feecap.Cmp(bf) >= 0 }

// effective miner fee, computed independently with math/big
func effFee(t *txin, bf *big.Int) *big.Int {
	if bf == nil {
		return t.tipcap
	}
	d := new(big.Int).Sub(t.feecap, bf)
	if d.Cmp(t.tipcap) > 0 {
		return t.tipcap
	}
	return d
}

// a strictly better than b under (fee desc, time asc)
func better(a, b *txin, bf *big.Int) bool {
	c := effFee(a, bf).Cmp(effFee(b, bf))
	if c != 0 {
		return c > 0
	}
	return a.tm.Cmp(b.tm) < 0
}

func catchClass(f func()) (cls int64) {
	defer func() {
		if recover() != nil {
			cls = 1
		}
	}()
	f()
	return 0
}

func addr(a *big.Int) common.Address { return common.BigToAddress(a) }

func run(c Sx) Result {
	mode, bf, accs, script := decode(c)
	res := Result{}
	var fails []string
	fail := func(f string, a ...any) {
		if len(fails) < 5 {
			fails = append(fails, fmt.Sprintf(f, a...))
		}
	}
	// shape: unique accounts; mode 0 needs pairwise distinct times
	seenAcc := map[string]bool{}
	seenTime := map[string]bool{}
	total := 0
	anyEmpty := false
	for _, a := range accs {
		if seenAcc[a.acc.String()] {
			panic("hxlib: duplicate account (not a map)")
		}
		seenAcc[a.acc.String()] = true
		if len(a.txs) == 0 {
			anyEmpty = true
		}
		for _, t := range a.txs {
			total++
			if mode == 0 && seenTime[t.tm.String()] {
				panic("hxlib: mode 0 requires distinct times")
			}
			seenTime[t.tm.String()] = true
		}
	}
	if mode != 0 && mode != 1 {
		panic("hxlib: bad mode")
	}
	if mode == 1 {
		script = make([]int, total+1)
	}

	pending := make(map[common.Address][]*txpool.LazyTransaction, len(accs))
	loc := map[*txpool.LazyTransaction]where{}
	for ai, a := range accs {
		var l []*txpool.LazyTransaction
		for ti, t := range a.txs {
			l = append(l, t.ltx)
			loc[t.ltx] = where{ai, ti}
		}
		pending[addr(a.acc)] = l
	}

	var it *txorder.TransactionsByPriceAndNonce
	var bfArg *big.Int
	if bf != nil {
		bfArg = new(big.Int).Set(bf)
	}
	ctorClass := catchClass(func() {
		it = txorder.NewTransactionsByPriceAndNonce(types.HomesteadSigner{}, pending, bfArg)
	})
	res.Tags = append(res.Tags, fmt.Sprintf("mode%d", mode), fmt.Sprintf("accts%s", bucket(len(accs))))
	if bf == nil {
		res.Tags = append(res.Tags, "basefee-nil")
	}
	if ctorClass == 1 {
		res.Obs = L(I(1))
		res.Tags = append(res.Tags, "ctor-panic")
		if !anyEmpty {
			res.Oracle = "constructor panicked although every account has a transaction"
		}
		return res
	}
	if anyEmpty {
		res.Oracle = "constructor accepted an account with an empty list"
		res.Obs = L(I(0))
		return res
	}

	// direct property oracle: own bookkeeping of the available heads
	ptr := make([]int, len(accs))
	alive := make([]bool, len(accs))
	nalive := 0
	headUnder, midUnder := false, false
	for ai, a := range accs {
		alive[ai] = affordable(a.txs[0], bf)
		if alive[ai] {
			nalive++
		} else {
			headUnder = true
		}
		for i := 1; i < len(a.txs); i++ {
			if !affordable(a.txs[i], bf) {
				midUnder = true
			}
		}
	}
	alive0 := nalive
	yielded := make([][]*txin, len(accs))
	var yields []Sx
	npop, feeTie := 0, false
	for _, op := range script {
		ltx, fee := it.Peek()
		if ltx == nil {
			if nalive != 0 {
				fail("Peek returned nil although %d account heads are available", nalive)
			}
			break
		}
		w, ok := loc[ltx]
		if !ok {
			fail("Peek returned a transaction that was not in the input")
			break
		}
		t := accs[w.a].txs[w.i]
		if !alive[w.a] {
			fail("account %x yielded tx index %d after it was dropped/exhausted", accs[w.a].acc, w.i)
		} else if w.i != ptr[w.a] {
			fail("account %x yielded tx index %d but its next unyielded index is %d (nonce order / predecessor)", accs[w.a].acc, w.i, ptr[w.a])
		}
		if fee == nil || fee.ToBig().Cmp(effFee(t, bf)) != 0 {
			fail("Peek fee %v != effective fee %v", fee, effFee(t, bf))
		}
		if !affordable(t, bf) {
			fail("yielded a transaction whose fee cap is below the base fee")
		}
		for bi, b := range accs {
			if alive[bi] && bi != w.a {
				h := b.txs[ptr[bi]]
				if better(h, t, bf) {
					fail("yielded (acc %x idx %d fee %v time %v) while head (acc %x idx %d fee %v time %v) is better",
						accs[w.a].acc, w.i, effFee(t, bf), t.tm, b.acc, ptr[bi], effFee(h, bf), h.tm)
				}
				if effFee(h, bf).Cmp(effFee(t, bf)) == 0 {
					feeTie = true
				}
			}
		}
		if n := len(yielded[w.a]); n > 0 && ltx.Tx != nil && yielded[w.a][n-1].ltx.Tx != nil && sortedNonces(accs[w.a]) &&
			ltx.Tx.Nonce() <= yielded[w.a][n-1].ltx.Tx.Nonce() {
			fail("account %x: nonce %d yielded after nonce %d", accs[w.a].acc, ltx.Tx.Nonce(), yielded[w.a][n-1].ltx.Tx.Nonce())
		}
		yielded[w.a] = append(yielded[w.a], t)
		yields = append(yields, L(Big(accs[w.a].acc), Big(t.id), Big(t.nonce), Big(fee.ToBig())))
		if op == 0 {
			it.Shift()
			if alive[w.a] {
				ptr[w.a] = w.i + 1
				if ptr[w.a] >= len(accs[w.a].txs) || !affordable(accs[w.a].txs[ptr[w.a]], bf) {
					alive[w.a] = false
					nalive--
				}
			}
		} else {
			it.Pop()
			npop++
			if alive[w.a] {
				alive[w.a] = false
				nalive--
			}
		}
	}
	empty := it.Empty()
	if empty != (nalive == 0) {
		fail("Empty()=%v but %d account heads are available", empty, nalive)
	}
	if p, _ := it.Peek(); (p == nil) != empty {
		fail("Peek()==nil disagrees with Empty()")
	}
	tail := L()
	if empty {
		tail = L(I(catchClass(func() { it.Shift() })), I(catchClass(func() { it.Pop() })))
	}
	if empty && npop == 0 {
		// all-Shift to exhaustion: exactly the affordable prefix of every account
		for ai, a := range accs {
			k := 0
			for k < len(a.txs) && affordable(a.txs[k], bf) {
				k++
			}
			if len(yielded[ai]) != k {
				fail("account %x: %d transactions yielded, affordable prefix has %d", a.acc, len(yielded[ai]), k)
				continue
			}
			for i := 0; i < k; i++ {
				if yielded[ai][i] != a.txs[i] {
					fail("account %x: yield %d is not input index %d", a.acc, i, i)
				}
			}
		}
		res.Tags = append(res.Tags, "exhausted-all-shift")
	}
	if mode == 0 {
		res.Obs = L(I(0), SL(yields), Bool(empty), tail)
	} else {
		var per []Sx
		for ai, a := range accs {
			var ids []Sx
			for _, t := range yielded[ai] {
				ids = append(ids, Big(t.id))
			}
			per = append(per, L(Big(a.acc), SL(ids)))
		}
		if empty {
			res.Obs = L(I(0), SL(per))
		} else {
			res.Obs = L(I(4))
		}
	}
	if headUnder {
		res.Tags = append(res.Tags, "underpriced-head")
	}
	if midUnder {
		res.Tags = append(res.Tags, "underpriced-later")
	}
	if npop > 0 {
		res.Tags = append(res.Tags, "pops")
	}
	if feeTie {
		res.Tags = append(res.Tags, "fee-tie")
	}
	if empty {
		res.Tags = append(res.Tags, "ended-empty")
	}
	res.Tags = append(res.Tags, fmt.Sprintf("yields%s", bucket(len(yields))))
	res.NonTrivial = alive0 >= 3 && len(yields) >= 4
	if len(fails) > 0 {
		res.Oracle = fmt.Sprint(fails)
	}
	return res
}

func sortedNonces(a *accin) bool {
	for i := 1; i < len(a.txs); i++ {
		if a.txs[i-1].nonce.Cmp(a.txs[i].nonce) >= 0 {
			return false
		}
	}
	return true
}

func bucket(n int) string {
	switch {
	case n == 0:
		return "0"
	case n <= 2:
		return "1-2"
	case n <= 8:
		return "3-8"
	case n <= 30:
		return "9-30"
	}
	return "31+"
}

// ---------------------------------------------------------------------------

func bigRand(r *Rng, bits int) *big.Int {
	return new(big.Int).SetBytes(r.Bytes((bits + 7) / 8))
}

func genCase(r *Rng, emit func(Sx)) {
	mode := 0
	if r.Chance(1, 6) {
		mode = 1
	}
	// base fee
	var bf *big.Int
	bfSx := L()
	huge := r.Chance(1, 25)
	if !r.Chance(1, 5) {
		switch {
		case huge:
			bf = new(big.Int).Sub(two256, big.NewInt(int64(1+r.Intn(60))))
		case r.Chance(1, 10):
			bf = big.NewInt(0)
		default:
			bf = big.NewInt(int64(r.Intn(200)))
		}
		bfSx = L(Big(bf))
	}
	nacc := r.Range(1, 30)
	switch r.Intn(10) {
	case 0:
		nacc = r.Intn(3)
	case 1, 2, 3:
		nacc = r.Range(2, 8)
	}
	malformed := r.Chance(1, 40)
	total := 0
	counts := make([]int, nacc)
	for i := range counts {
		counts[i] = r.Range(1, 6)
		total += counts[i]
	}
	// distinct times: a random permutation of slots, scaled; mode 1 draws from a tiny range
	perm := make([]int, total)
	for i := range perm {
		perm[i] = i
	}
	for i := total - 1; i > 0; i-- {
		j := r.Intn(i + 1)
		perm[i], perm[j] = perm[j], perm[i]
	}
	stride := int64(1 + r.Intn(1000))
	off := int64(r.Intn(2000000)) - 1000000
	if r.Chance(1, 10) {
		off = int64(1700000000) * 1000000000
	}
	feeSpread := 1 + r.Intn(30) // small spreads force many fee ties
	underP := r.Intn(4)         // 0: never underpriced
	k := 0
	usedAcc := map[string]bool{}
	var pend []Sx
	for i := 0; i < nacc; i++ {
		var acc *big.Int
		for {
			if r.Bool() {
				acc = big.NewInt(int64(1 + r.Intn(1000)))
			} else {
				acc = bigRand(r, 160)
			}
			if !usedAcc[acc.String()] {
				usedAcc[acc.String()] = true
				break
			}
		}
		nonce := big.NewInt(int64(r.Intn(50)))
		if r.Chance(1, 20) {
			nonce = new(big.Int).SetUint64(^uint64(0) - 10)
		}
		var txs []Sx
		for j := 0; j < counts[i]; j++ {
			var feecap, tipcap *big.Int
			base := big.NewInt(0)
			if bf != nil {
				base = bf
			}
			// fee cap around the base fee
			d := int64(r.Intn(feeSpread + 1))
			if bf != nil && underP > 0 && r.Chance(underP, 12) {
				feecap = new(big.Int).Sub(base, big.NewInt(1+int64(r.Intn(5))))
				if feecap.Sign() < 0 {
					feecap = big.NewInt(0)
				}
			} else {
				feecap = new(big.Int).Add(base, big.NewInt(d))
			}
			if feecap.Cmp(two256) >= 0 {
				feecap = new(big.Int).Sub(two256, big.NewInt(1))
			}
			switch r.Intn(6) {
			case 0:
				tipcap = new(big.Int).Set(feecap) // legacy-style: tip = price
			case 1:
				tipcap = big.NewInt(int64(r.Intn(feeSpread + 5)))
			case 2:
				tipcap = big.NewInt(0)
			default:
				tipcap = big.NewInt(int64(r.Intn(feeSpread + 1)))
			}
			if huge && r.Chance(1, 3) {
				tipcap = new(big.Int).Sub(two256, big.NewInt(int64(1+r.Intn(5))))
			}
			var tm int64
			if mode == 0 {
				tm = off + int64(perm[k])*stride
			} else {
				tm = int64(r.Intn(3))
			}
			k++
			id := big.NewInt(int64(i*16 + j + 1))
			if r.Chance(1, 50) {
				id = bigRand(r, 256)
			}
			txs = append(txs, L(Big(id), Big(new(big.Int).Add(nonce, big.NewInt(int64(j)))), Big(feecap), Big(tipcap), I(tm)))
		}
		if malformed && r.Chance(1, 3) {
			txs = nil
		}
		pend = append(pend, L(Big(acc), SL(txs)))
	}
	// script
	var script []Sx
	if mode == 0 {
		n := total + 2
		if r.Chance(1, 4) {
			n = r.Intn(total + 1)
		}
		popP := 0
		switch r.Intn(5) {
		case 0, 1:
			popP = 0
		case 2:
			popP = 1
		case 3:
			popP = 3
		case 4:
			popP = 8
		}
		for i := 0; i < n; i++ {
			if r.Chance(popP, 16) {
				script = append(script, I(1))
			} else {
				script = append(script, I(0))
			}
		}
	}
	emit(L(I(int64(mode)), bfSx, SL(pend), SL(script)))
}

func gen(r *Rng, tier string, emit func(Sx)) {
	n := 2500
	if tier == "thorough" {
		n = 60000
	}
	for i := 0; i < n; i++ {
		genCase(r, emit)
	}
}

func main() {
	Main(Family{
		ID: "C43",
		Rule: "random pending maps: 0-30 accounts (ids small or 160-bit), 1-6 transactions each with consecutive nonces, base fee nil / 0 / <200 / near 2^256, " +
			"fee caps within a small random spread above the base fee (many fee ties) or below it (underpriced heads and underpriced later transactions), tips legacy-style/zero/small/huge; " +
			"mode 0: pairwise distinct times (random permutation), script of Shift/Pop with pop probability 0, 1/16, 3/16 or 8/16, run to exhaustion or cut short, every yield compared; " +
			"mode 1: times in {0,1,2} (ties in fee and time), all-Shift, per-account projections compared; malformed stream: an account with an empty list (constructor panic), zero accounts. " +
			"Non-trivial: at least 3 accounts with an affordable head and at least 4 yields; distinct = distinct case line.",
		Gen: gen,
		Run: run,
	})
}
