package main

import (
	"fmt"
	"os"
	"path/filepath"

	"github.com/ethereum/go-ethereum/core/rawdb"
	"github.com/ethereum/go-ethereum/ethdb"
)

func cpdir(src, dst string) {
	os.MkdirAll(dst, 0755)
	es, _ := os.ReadDir(src)
	for _, e := range es {
		if e.IsDir() {
			continue
		}
		b, _ := os.ReadFile(filepath.Join(src, e.Name()))
		os.WriteFile(filepath.Join(dst, e.Name()), b, 0644)
	}
}

func main() {
	root, _ := os.MkdirTemp("/dev/shm", "c24x")
	defer os.RemoveAll(root)
	live := filepath.Join(root, "live")
	tabs := map[string]bool{"a": true, "b": true}
	f, err := rawdb.VerifNewFreezer(live, 100, tabs)
	if err != nil {
		panic(err)
	}
	app := func(from, to uint64, bsize int) {
		_, err := f.ModifyAncients(func(op ethdb.AncientWriteOp) error {
			for i := from; i < to; i++ {
				if err := op.AppendRaw("a", i, []byte{byte(i), 1, 2, 3}); err != nil {
					return err
				}
				if err := op.AppendRaw("b", i, make([]byte, bsize)); err != nil {
					return err
				}
			}
			return nil
		})
		if err != nil {
			panic(err)
		}
	}
	app(0, 5, 4)
	f.SyncAncient()
	synced := filepath.Join(root, "synced")
	cpdir(live, synced)
	// table b gets 30-byte items: it rolls over (advanceHead -> doSync) while table a does not
	app(5, 10, 30)
	tail, err := f.TruncateTail("g", 8)
	fmt.Println("TruncateTail", tail, err)
	// crash: table a keeps only its durable (last SyncAncient) index/data but its CURRENT meta (virtualTail 8);
	// table b keeps everything it has (its roll-overs fsync'ed most of it)
	crash := filepath.Join(root, "crash")
	cpdir(live, crash)
	for _, n := range []string{"a.ridx", "a.0000.rdat"} {
		b, _ := os.ReadFile(filepath.Join(synced, n))
		os.WriteFile(filepath.Join(crash, n), b, 0644)
	}
	os.Remove(filepath.Join(crash, "FLOCK"))
	f2, err := rawdb.VerifNewFreezer(crash, 100, tabs)
	fmt.Println("reopen freezer err:", err)
	if err == nil {
		n, _ := f2.Ancients()
		t, _ := f2.Tail("g")
		fmt.Println("ancients", n, "tail", t)
		for i := uint64(0); i < 12; i++ {
			a, ea := f2.Ancient("a", i)
			b, eb := f2.Ancient("b", i)
			fmt.Println(i, len(a), ea, len(b), eb)
		}
		f2.Close()
	}
	f.Close()
}
