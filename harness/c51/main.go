// Family c51: accounts/abi Arguments.Pack / Arguments.Unpack vs coq/Abi/Codec.v.
//
// Case formats (see coq/Run/C51.v):
//
//	(0 (type...) (value...))              pack, unpack(pack), spec encoding
//	(1 (type...) x<bytes>)                unpack arbitrary bytes, re-pack the result
//	(2 (type...) (value...) x<bytes> f)   x = spec encoding of the values with only padding
//	                                      bytes dirtied; f=1: padding the decoder tolerates,
//	                                      f=2: one padding byte the decoder checks
package main

import (
	"bufio"
	"bytes"
	"fmt"
	"math/big"
	"os"
	"reflect"
	"strings"

	"github.com/ethereum/go-ethereum/accounts/abi"
	. "gethverif/harness/hxlib"
)

const (
	kUInt = iota
	kInt
	kBool
	kAddress
	kFixedBytes
	kBytes
	kString
	kArray
	kFixedArray
	kTuple
)

// T is the type tree exchanged with the model.
type T struct {
	kind   int
	n      int // width / bytes<n> / fixed array size
	elem   *T
	fields []*T
}

func shape(f string, a ...interface{}) { panic("hxlib: " + fmt.Sprintf(f, a...)) }

func parseTy(s Sx) *T {
	l := AsList(s)
	if len(l) == 0 {
		shape("empty type")
	}
	k := AsInt(l[0])
	need := func(n int) {
		if len(l) != n {
			shape("type arity")
		}
	}
	switch k {
	case kUInt, kInt, kFixedBytes:
		need(2)
		n := AsInt(l[1])
		if n < 1 || n > 256 || (k != kFixedBytes && n%8 != 0) || (k == kFixedBytes && n > 32) {
			shape("unsupported width %d", n)
		}
		return &T{kind: k, n: n}
	case kBool, kAddress, kBytes, kString:
		need(1)
		return &T{kind: k}
	case kArray:
		need(2)
		return &T{kind: k, elem: parseTy(l[1])}
	case kFixedArray:
		need(3)
		n := AsInt(l[1])
		if n < 0 || n > 64 {
			shape("array size")
		}
		return &T{kind: k, n: n, elem: parseTy(l[2])}
	case kTuple:
		t := &T{kind: k}
		for _, x := range l[1:] {
			t.fields = append(t.fields, parseTy(x))
		}
		return t
	}
	shape("unknown type kind %d", k)
	return nil
}

func (t *T) sx() Sx {
	switch t.kind {
	case kUInt, kInt, kFixedBytes:
		return L(I(int64(t.kind)), I(int64(t.n)))
	case kArray:
		return L(I(kArray), t.elem.sx())
	case kFixedArray:
		return L(I(kFixedArray), I(int64(t.n)), t.elem.sx())
	case kTuple:
		out := SL{I(kTuple)}
		for _, f := range t.fields {
			out = append(out, f.sx())
		}
		return out
	}
	return L(I(int64(t.kind)))
}

// abiStr renders the type for abi.NewType: base string + tuple components.
func (t *T) abiStr() (string, []abi.ArgumentMarshaling) {
	switch t.kind {
	case kUInt:
		return fmt.Sprintf("uint%d", t.n), nil
	case kInt:
		return fmt.Sprintf("int%d", t.n), nil
	case kBool:
		return "bool", nil
	case kAddress:
		return "address", nil
	case kFixedBytes:
		return fmt.Sprintf("bytes%d", t.n), nil
	case kBytes:
		return "bytes", nil
	case kString:
		return "string", nil
	case kArray:
		s, c := t.elem.abiStr()
		return s + "[]", c
	case kFixedArray:
		s, c := t.elem.abiStr()
		return fmt.Sprintf("%s[%d]", s, t.n), c
	case kTuple:
		var comps []abi.ArgumentMarshaling
		for i, f := range t.fields {
			s, c := f.abiStr()
			comps = append(comps, abi.ArgumentMarshaling{Name: fmt.Sprintf("f%d", i), Type: s, Components: c})
		}
		return "tuple", comps
	}
	panic("hxlib: bad kind")
}

func (t *T) abiType() abi.Type {
	s, c := t.abiStr()
	at, err := abi.NewType(s, "", c)
	if err != nil {
		panic("hxlib: NewType " + s + ": " + err.Error())
	}
	return at
}

func native(n int) bool { return n == 8 || n == 16 || n == 32 || n == 64 }

func (t *T) dynamic() bool {
	switch t.kind {
	case kBytes, kString, kArray:
		return true
	case kFixedArray:
		return t.elem.dynamic()
	case kTuple:
		for _, f := range t.fields {
			if f.dynamic() {
				return true
			}
		}
	}
	return false
}

// tyRT mirrors coq ty_rt: no static component of encoded size 0.
func (t *T) tyRT() bool {
	switch t.kind {
	case kArray:
		return t.elem.tyRT()
	case kFixedArray:
		return t.elem.tyRT() && (t.elem.dynamic() || t.n != 0)
	case kTuple:
		for _, f := range t.fields {
			if !f.tyRT() {
				return false
			}
		}
		return len(t.fields) > 0
	}
	return true
}

func pow2(n int) *big.Int { return new(big.Int).Lsh(big.NewInt(1), uint(n)) }

func inUnsigned(n int, z *big.Int) bool { return z.Sign() >= 0 && z.Cmp(pow2(n)) < 0 }
func inSigned(n int, z *big.Int) bool {
	return z.Cmp(new(big.Int).Neg(pow2(n-1))) >= 0 && z.Cmp(pow2(n-1)) < 0
}

// valOK checks the value tree against the type: strict = ABI-typed (coq wf_value),
// otherwise Go-representable / round-trippable (coq val_rt).  A shape mismatch is a
// harness shape error.
func valOK(t *T, v Sx, strict bool) bool {
	switch t.kind {
	case kUInt, kInt:
		z := AsBig(v)
		w := t.n
		if !strict && !native(w) {
			w = 256
		}
		if t.kind == kUInt {
			return inUnsigned(w, z)
		}
		return inSigned(w, z)
	case kBool:
		z := AsBig(v)
		if !z.IsInt64() || z.Int64() < 0 || z.Int64() > 1 {
			shape("bool value")
		}
		return true
	case kAddress:
		if len(AsBytes(v)) != 20 {
			shape("address length")
		}
		return true
	case kFixedBytes:
		if len(AsBytes(v)) != t.n {
			shape("bytesN length")
		}
		return true
	case kBytes, kString:
		AsBytes(v)
		return true
	case kArray, kFixedArray:
		l := AsList(v)
		if t.kind == kFixedArray && len(l) != t.n {
			shape("array length")
		}
		ok := true
		for _, x := range l {
			ok = valOK(t.elem, x, strict) && ok
		}
		return ok
	case kTuple:
		l := AsList(v)
		if len(l) != len(t.fields) {
			shape("tuple arity")
		}
		ok := true
		for i, x := range l {
			ok = valOK(t.fields[i], x, strict) && ok
		}
		return ok
	}
	return false
}

// representable: native-width integers must fit their Go type to be built at all.
func representable(t *T, v Sx) bool {
	switch t.kind {
	case kUInt:
		return !native(t.n) || inUnsigned(t.n, AsBig(v))
	case kInt:
		return !native(t.n) || inSigned(t.n, AsBig(v))
	case kArray, kFixedArray:
		for _, x := range AsList(v) {
			if !representable(t.elem, x) {
				return false
			}
		}
	case kTuple:
		for i, x := range AsList(v) {
			if i < len(t.fields) && !representable(t.fields[i], x) {
				return false
			}
		}
	}
	return true
}

// build makes the Go value of reflect type at.GetType() from the value tree.
func build(at abi.Type, t *T, v Sx) reflect.Value {
	rv := reflect.New(at.GetType()).Elem()
	switch t.kind {
	case kUInt:
		z := AsBig(v)
		if native(t.n) {
			rv.SetUint(z.Uint64())
		} else {
			rv.Set(reflect.ValueOf(z))
		}
	case kInt:
		z := AsBig(v)
		if native(t.n) {
			rv.SetInt(z.Int64())
		} else {
			rv.Set(reflect.ValueOf(z))
		}
	case kBool:
		rv.SetBool(AsBig(v).Sign() != 0)
	case kAddress, kFixedBytes:
		reflect.Copy(rv, reflect.ValueOf(AsBytes(v)))
	case kBytes:
		rv.SetBytes(AsBytes(v))
	case kString:
		rv.SetString(string(AsBytes(v)))
	case kArray:
		l := AsList(v)
		rv.Set(reflect.MakeSlice(at.GetType(), len(l), len(l)))
		for i, x := range l {
			rv.Index(i).Set(build(*at.Elem, t.elem, x))
		}
	case kFixedArray:
		for i, x := range AsList(v) {
			rv.Index(i).Set(build(*at.Elem, t.elem, x))
		}
	case kTuple:
		for i, x := range AsList(v) {
			rv.Field(i).Set(build(*at.TupleElems[i], t.fields[i], x))
		}
	}
	return rv
}

// render is the canonical value tree of a Go value returned by Unpack.
func render(t *T, rv reflect.Value) Sx {
	switch t.kind {
	case kUInt, kInt:
		switch rv.Kind() {
		case reflect.Pointer:
			return Big(rv.Interface().(*big.Int))
		case reflect.Uint8, reflect.Uint16, reflect.Uint32, reflect.Uint64:
			return U(rv.Uint())
		default:
			return I(rv.Int())
		}
	case kBool:
		return Bool(rv.Bool())
	case kAddress, kFixedBytes:
		b := make([]byte, rv.Len())
		for i := range b {
			b[i] = byte(rv.Index(i).Uint())
		}
		return B(b)
	case kBytes:
		return B(rv.Bytes())
	case kString:
		return B([]byte(rv.String()))
	case kArray, kFixedArray:
		out := SL{}
		for i := 0; i < rv.Len(); i++ {
			out = append(out, render(t.elem, rv.Index(i)))
		}
		return out
	case kTuple:
		out := SL{}
		for i := range t.fields {
			out = append(out, render(t.fields[i], rv.Field(i)))
		}
		return out
	}
	panic("hxlib: bad kind")
}

func errClass(err error) int64 {
	s := err.Error()
	for _, p := range []struct {
		sub string
		c   int64
	}{
		{"length insufficient", 1},
		{"cannot marshal in to go slice: offset", 2},
		{"abi offset larger than int64", 3},
		{"length larger than int64", 4},
		{"cannot marshal into go array: offset", 5},
		{"toGoType offset greater than output length", 6},
		{"improperly encoded boolean", 7},
		{"improperly encoded uint", 8},
		{"improperly encoded int", 8},
		{"attempting to unmarshal an empty string", 9},
		{"size is negative", 10},
		{"negatively-signed", 20},
		{"cannot use", 21},
		{"argument count mismatch", 21},
	} {
		if strings.Contains(s, p.sub) {
			return p.c
		}
	}
	return 99
}

// ---- independent spec encoder (Solidity ABI), with a padding mask --------------
// mask: 0 data, 1 padding the decoder is expected to tolerate, 2 padding it checks,
// 3 structure (offset and length words), 4 the upper 24 bytes of the offset word of a
// dynamic T[k] (not read by the decoder: finding C51-offset-word-truncated).

type part struct {
	dyn   bool
	faDyn bool // dynamic fixed-size array: its offset word is read with Uint64(last 8 bytes)
	b, m  []byte
}

func word(z *big.Int) []byte {
	x := new(big.Int).Mod(z, pow2(256))
	out := make([]byte, 32)
	x.FillBytes(out)
	return out
}

func specTuple(ps []part) ([]byte, []byte) {
	hl := 0
	for _, p := range ps {
		if p.dyn {
			hl += 32
		} else {
			hl += len(p.b)
		}
	}
	var hb, hm, tb, tm []byte
	for _, p := range ps {
		if p.dyn {
			hb = append(hb, word(big.NewInt(int64(hl+len(tb))))...)
			m := padMask(32, 0, 32, 3)
			if p.faDyn {
				for i := 0; i < 24; i++ {
					m[i] = 4
				}
			}
			hm = append(hm, m...)
			tb = append(tb, p.b...)
			tm = append(tm, p.m...)
		} else {
			hb = append(hb, p.b...)
			hm = append(hm, p.m...)
		}
	}
	return append(hb, tb...), append(hm, tm...)
}

func padMask(n, from, to int, cls byte) []byte {
	m := make([]byte, n)
	for i := from; i < to; i++ {
		m[i] = cls
	}
	return m
}

func specEnc(t *T, v Sx) ([]byte, []byte) {
	switch t.kind {
	case kUInt, kInt:
		if native(t.n) {
			return word(AsBig(v)), padMask(32, 0, 32-t.n/8, 2)
		}
		return word(AsBig(v)), make([]byte, 32)
	case kBool:
		return word(big.NewInt(AsBig(v).Int64())), padMask(32, 0, 31, 2)
	case kAddress:
		return append(make([]byte, 12), AsBytes(v)...), padMask(32, 0, 12, 1)
	case kFixedBytes:
		b := AsBytes(v)
		return append(b, make([]byte, 32-len(b))...), padMask(32, len(b), 32, 1)
	case kBytes, kString:
		b := AsBytes(v)
		pad := (32 - len(b)%32) % 32
		out := append(word(big.NewInt(int64(len(b)))), b...)
		out = append(out, make([]byte, pad)...)
		m := padMask(len(out), 32+len(b), len(out), 1)
		copy(m, padMask(32, 0, 32, 3))
		return out, m
	case kArray, kFixedArray:
		var ps []part
		for _, x := range AsList(v) {
			b, m := specEnc(t.elem, x)
			ps = append(ps, part{t.elem.dynamic(), t.elem.kind == kFixedArray && t.elem.dynamic(), b, m})
		}
		b, m := specTuple(ps)
		if t.kind == kArray {
			b = append(word(big.NewInt(int64(len(ps)))), b...)
			m = append(padMask(32, 0, 32, 3), m...)
		}
		return b, m
	case kTuple:
		return specArgs(t.fields, AsList(v))
	}
	panic("hxlib: bad kind")
}

func specArgs(ts []*T, vs SL) ([]byte, []byte) {
	var ps []part
	for i, x := range vs {
		b, m := specEnc(ts[i], x)
		ps = append(ps, part{ts[i].dynamic(), ts[i].kind == kFixedArray && ts[i].dynamic(), b, m})
	}
	return specTuple(ps)
}

// ---- running the implementation ------------------------------------------------

type env struct {
	ts   []*T
	args abi.Arguments
}

func mkEnv(s Sx) *env {
	e := &env{}
	for i, x := range AsList(s) {
		t := parseTy(x)
		e.ts = append(e.ts, t)
		e.args = append(e.args, abi.Argument{Name: fmt.Sprintf("a%d", i), Type: t.abiType()})
	}
	return e
}

// pack returns (bytes, class, panicked)
func (e *env) pack(vals SL) (out []byte, cls int64, pan string) {
	var goArgs []interface{}
	for i, x := range vals {
		goArgs = append(goArgs, build(e.args[i].Type, e.ts[i], x).Interface())
	}
	defer func() {
		if r := recover(); r != nil {
			pan = fmt.Sprint(r)
		}
	}()
	b, err := e.args.Pack(goArgs...)
	if err != nil {
		return nil, errClass(err), ""
	}
	return b, 0, ""
}

func (e *env) unpack(data []byte) (vals SL, cls int64, pan string) {
	defer func() {
		if r := recover(); r != nil {
			pan = fmt.Sprint(r)
		}
	}()
	res, err := e.args.Unpack(append([]byte{}, data...))
	if err != nil {
		return nil, errClass(err), ""
	}
	if len(res) != len(e.ts) {
		return nil, 98, ""
	}
	vals = SL{}
	for i, x := range res {
		vals = append(vals, render(e.ts[i], reflect.ValueOf(x)))
	}
	return vals, 0, ""
}

func resSx(payload Sx, cls int64, pan string) Sx {
	if pan != "" {
		return L(I(2))
	}
	if cls != 0 {
		return L(I(1), I(cls))
	}
	return L(I(0), payload)
}

func (e *env) checkVals(vals SL) {
	if len(vals) != len(e.ts) {
		shape("argument count")
	}
}

func (e *env) allOK(vals SL, strict bool) bool {
	ok := true
	for i, x := range vals {
		ok = valOK(e.ts[i], x, strict) && ok
	}
	return ok
}

func (e *env) tyRT() bool {
	for _, t := range e.ts {
		if !t.tyRT() {
			return false
		}
	}
	return true
}

// ---- oracle verdicts -----------------------------------------------------------
//
// The oracle is the property read strictly.  Deviations that are recorded as open
// known findings get a stable prefix and are emitted only when their mechanism has
// been verified on the case; anything else is a genuine failure.  A case with a
// genuine failure lists it first, so the anchored known-finding patterns
// ("^C51-...[^;]*$") can never match it.

const (
	kfZeroSize     = "C51-zero-size-static: Unpack(Pack(v)) fails for a type containing a static component of encoded size 0"
	kfNonCanonical = "C51-noncanonical-layout-accepted: Unpack accepted an input whose offset/length words differ from those of its re-encoding"
	kfOffsetTrunc  = "C51-offset-word-truncated: Unpack accepted a dynamic T[k] offset word with non-zero upper 24 bytes (only the last 8 bytes are read)"
	kfIntWidth     = "C51-int-width-unchecked: a uintN/intN value outside its N-bit range (N not 8/16/32/64) was accepted by Unpack or packed by Pack"
)

var kfPriority = []string{kfZeroSize, kfNonCanonical, kfOffsetTrunc, kfIntWidth}

type verdict struct {
	genuine []string
	known   map[string]bool
}

func (v *verdict) bad(f string, a ...interface{}) { v.genuine = append(v.genuine, fmt.Sprintf(f, a...)) }
func (v *verdict) kf(m string) {
	if v.known == nil {
		v.known = map[string]bool{}
	}
	v.known[m] = true
}

// oracle renders the verdict: genuine failures first (then the known classes, for
// information); with no genuine failure, the single highest-priority known class.
func (v *verdict) oracle() string {
	var ks []string
	for _, m := range kfPriority {
		if v.known[m] {
			ks = append(ks, m)
		}
	}
	if len(v.genuine) > 0 {
		return strings.Join(append(v.genuine, ks...), "; ")
	}
	if len(ks) > 0 {
		return ks[0]
	}
	return ""
}

// zeroSizeClass: the error classes a zero-size static component can cause
// (toGoType "length insufficient", forEachUnpack "would go over slice boundary",
// Unpack "empty string").
func zeroSizeClass(c int64) bool { return c == 1 || c == 5 || c == 9 }

// roundTrip checks Unpack(pb) == vals where pb = Pack(vals) succeeded.
func (e *env) roundTrip(v *verdict, pb []byte, vals SL, what string) {
	uv, ucls, upan := e.unpack(pb)
	switch {
	case upan != "":
		v.bad("Unpack(Pack(%s)) panicked: %s", what, upan)
	case ucls == 0 && String(uv) == String(vals):
	case !e.tyRT() && zeroSizeClass(ucls):
		v.kf(kfZeroSize)
	default:
		v.bad("Unpack(Pack(%s)) != %s (class %d)", what, what, ucls)
	}
}

func runDecode(e *env, data []byte, res *Result, v *verdict) (SL, bool) {
	vals, cls, pan := e.unpack(data)
	second := Sx(L())
	if pan != "" {
		v.bad("Unpack panicked on arbitrary bytes: %s", pan)
		res.Tags = append(res.Tags, "panic")
	} else if cls != 0 {
		res.Tags = append(res.Tags, fmt.Sprintf("err%d", cls))
	} else {
		res.Tags = append(res.Tags, "decoded")
		// decoded values must be packable, and re-encode to a canonical string that decodes to them
		pb, pcls, ppan := e.pack(vals)
		second = resSx(B(pb), pcls, ppan)
		if ppan != "" || pcls != 0 {
			v.bad("Pack of decoded values failed (class %d %s)", pcls, ppan)
		} else {
			e.roundTrip(v, pb, vals, "decoded")
			strict := e.allOK(vals, true)
			if !strict {
				// the only way a decoded value is not ABI-typed: an integer outside its declared width
				if !e.allOK(vals, false) {
					v.bad("Unpack returned a value outside the range of its Go type")
				} else {
					v.kf(kfIntWidth)
					res.Tags = append(res.Tags, "kf-intwidth")
				}
			}
			sb, mask := specArgs(e.ts, vals)
			if strict && !bytes.Equal(sb, pb) {
				v.bad("Pack(decoded) differs from the ABI specification encoding")
			}
			// canonical prefix: the accepted input must carry its own re-encoding as a prefix,
			// up to padding the decoder is known to tolerate (mask 1)
			if len(mask) == len(pb) {
				layout := len(data) >= len(pb)
				for i := 0; layout && i < len(pb); i++ {
					if mask[i] == 3 && data[i] != pb[i] {
						layout = false
					}
				}
				if !layout {
					v.kf(kfNonCanonical)
					res.Tags = append(res.Tags, "kf-noncanonical")
				} else {
					res.Tags = append(res.Tags, "canonical-layout")
					for i := range pb {
						if data[i] == pb[i] {
							continue
						}
						switch mask[i] {
						case 1:
						case 4:
							v.kf(kfOffsetTrunc)
						default:
							v.bad("accepted input with canonical offset/length words differs from its re-encoding at byte %d outside tolerated padding", i)
						}
						if mask[i] != 1 && mask[i] != 4 {
							break
						}
					}
					if v.known[kfOffsetTrunc] {
						res.Tags = append(res.Tags, "kf-offsettrunc")
					}
				}
			}
		}
	}
	res.Obs = L(resSx(vals, cls, pan), second)
	return vals, pan == "" && cls == 0
}

func run(c Sx) Result {
	l := AsList(c)
	if len(l) < 3 {
		shape("case arity")
	}
	res := Result{}
	v := &verdict{}
	e := mkEnv(l[1])
	if !e.tyRT() {
		res.Tags = append(res.Tags, "zerosize")
	}
	switch AsInt(l[0]) {
	case 0:
		vals := AsList(l[2])
		e.checkVals(vals)
		for i, x := range vals {
			valOK(e.ts[i], x, false) // shape check
			if !representable(e.ts[i], x) {
				shape("value not representable in the Go type")
			}
		}
		wf, rt := e.allOK(vals, true), e.allOK(vals, false)
		pb, pcls, ppan := e.pack(vals)
		second := Sx(L())
		if ppan != "" {
			v.bad("Pack panicked: %s", ppan)
		}
		sb, _ := specArgs(e.ts, vals)
		if wf {
			res.Tags = append(res.Tags, "wf")
			if ppan == "" && (pcls != 0 || !bytes.Equal(pb, sb)) {
				v.bad("Pack of an ABI-typed value is not the specification encoding (class %d)", pcls)
			}
		} else if rt {
			res.Tags = append(res.Tags, "wide")
		} else {
			res.Tags = append(res.Tags, "wrap")
		}
		if ppan == "" && pcls == 0 {
			if !wf {
				// an out-of-width integer in a *big.Int position was packed (possibly wrapped mod 2^256)
				v.kf(kfIntWidth)
				res.Tags = append(res.Tags, "kf-intwidth")
			}
			uv, ucls, upan := e.unpack(pb)
			second = resSx(uv, ucls, upan)
			if rt {
				e.roundTrip(v, pb, vals, "v")
				res.NonTrivial = len(pb) >= 64
			} else if upan != "" {
				v.bad("Unpack(Pack(v)) panicked: %s", upan)
			}
		} else if pcls != 0 {
			res.Tags = append(res.Tags, fmt.Sprintf("packerr%d", pcls))
			if pcls != 20 || rt {
				// the only legitimate Pack error here: a negative *big.Int in a uint position
				v.bad("Pack failed (class %d) on a value of the reflect type GetType()", pcls)
			}
		}
		if v.known[kfZeroSize] {
			res.Tags = append(res.Tags, "kf-zerosize")
		}
		spec := Sx(L())
		if wf {
			spec = L(B(sb))
		}
		res.Obs = L(resSx(B(pb), pcls, ppan), second, spec)
		res.Tags = append(res.Tags, fmt.Sprintf("len%d", min(len(pb)/128, 9)))
		res.Oracle = v.oracle()
		return res
	case 1:
		data := AsBytes(l[2])
		_, ok := runDecode(e, data, &res, v)
		res.NonTrivial = ok && len(data) >= 64 || (!ok && len(data) >= 32)
		if v.known[kfZeroSize] {
			res.Tags = append(res.Tags, "kf-zerosize")
		}
		res.Oracle = v.oracle()
		return res
	case 2:
		if len(l) != 5 {
			shape("case arity")
		}
		vals := AsList(l[2])
		e.checkVals(vals)
		for i, x := range vals {
			valOK(e.ts[i], x, false)
		}
		data := AsBytes(l[3])
		flag := AsInt(l[4])
		got, ok := runDecode(e, data, &res, v)
		sb, mask := specArgs(e.ts, vals)
		// the case is meaningful only if data differs from the spec encoding on mask positions of the flagged class
		valid := len(data) == len(sb) && e.allOK(vals, true) && e.tyRT()
		diff := 0
		if valid {
			for i := range sb {
				if sb[i] != data[i] {
					diff++
					if int(mask[i]) != flag {
						valid = false
					}
				}
			}
		}
		if valid && diff > 0 {
			switch flag {
			case 1:
				res.Tags = append(res.Tags, "dirty-tolerated")
				if !ok || String(got) != String(vals) {
					v.bad("dirty padding in a tolerated position changed the decoding")
				}
			case 2:
				res.Tags = append(res.Tags, "dirty-checked")
				if ok {
					v.bad("dirty padding in a checked position (bool / native integer extension) was accepted")
				}
			}
			res.NonTrivial = true
		}
		res.Oracle = v.oracle()
		return res
	}
	shape("unknown case kind")
	return res
}

// oracleClass is what the shrinker must preserve: a genuine failure stays genuine,
// a known finding stays in its class (hxlib's default predicate "any oracle failure"
// could shrink a genuine violation into a known-finding case and hide it).
func oracleClass(o string) string {
	for _, m := range kfPriority {
		if o == m {
			return m[:strings.Index(m, ":")]
		}
	}
	if o == "" {
		return ""
	}
	return "genuine"
}

func runGuarded(c Sx) (o string, shapeErr bool) {
	defer func() {
		if r := recover(); r != nil {
			msg := fmt.Sprint(r)
			if strings.HasPrefix(msg, "hxlib:") || strings.HasPrefix(msg, "reflect") || strings.Contains(msg, "index out of range") {
				shapeErr = true
				return
			}
			o = "unexpected panic: " + msg
		}
	}()
	return run(c).Oracle, false
}

func shrinkMain() {
	sc := bufio.NewScanner(os.Stdin)
	sc.Buffer(make([]byte, 1<<20), 1<<28)
	out := bufio.NewWriter(os.Stdout)
	defer out.Flush()
	for sc.Scan() {
		line := sc.Text()
		if line == "" {
			continue
		}
		c, err := Parse(line)
		if err != nil {
			fmt.Fprintln(out, line)
			continue
		}
		o0, sh := runGuarded(c)
		want := oracleClass(o0)
		if !sh && want != "" {
			c = Shrink(c, func(x Sx) bool {
				o, sh := runGuarded(x)
				return !sh && oracleClass(o) == want
			})
		}
		fmt.Fprintln(out, String(c))
	}
}

// ---- generation ----------------------------------------------------------------

type gen struct {
	r      *Rng
	budget int
}

func (g *gen) ty(depth int) *T {
	r := g.r
	g.budget--
	composite := depth > 0 && g.budget > 0 && r.Chance(45, 100)
	if !composite {
		switch r.Intn(9) {
		case 0, 1:
			return &T{kind: kUInt, n: g.width()}
		case 2:
			return &T{kind: kInt, n: g.width()}
		case 3:
			return &T{kind: kBool}
		case 4:
			return &T{kind: kAddress}
		case 5:
			return &T{kind: kFixedBytes, n: r.Range(1, 32)}
		case 6, 7:
			return &T{kind: kBytes}
		default:
			return &T{kind: kString}
		}
	}
	switch r.Intn(3) {
	case 0:
		return &T{kind: kArray, elem: g.ty(depth - 1)}
	case 1:
		k := r.Range(1, 3)
		if r.Chance(1, 8) {
			k = 0
		}
		return &T{kind: kFixedArray, n: k, elem: g.ty(depth - 1)}
	default:
		n := r.Range(1, 4)
		if r.Chance(1, 12) {
			n = 0
		}
		t := &T{kind: kTuple}
		for i := 0; i < n; i++ {
			t.fields = append(t.fields, g.ty(depth-1))
		}
		return t
	}
}

func (g *gen) width() int {
	if g.r.Bool() {
		return []int{8, 16, 32, 64, 256}[g.r.Intn(5)]
	}
	return 8 * g.r.Range(1, 32)
}

func (g *gen) bigBelow(n int) *big.Int { // uniform-ish in [0, 2^n)
	b := g.r.Bytes((n + 7) / 8)
	z := new(big.Int).SetBytes(b)
	return z.Mod(z, pow2(n))
}

// val generates a value; wild allows out-of-width values for *big.Int widths.
func (g *gen) val(t *T, wild bool) Sx {
	r := g.r
	switch t.kind {
	case kUInt:
		n := t.n
		if wild && !native(n) && r.Chance(1, 3) {
			switch r.Intn(4) {
			case 0:
				return Big(pow2(n)) // just out of the declared width
			case 1:
				return Big(g.bigBelow(256))
			case 2:
				return Big(new(big.Int).Add(pow2(256), g.bigBelow(70))) // wraps mod 2^256
			default:
				return Big(new(big.Int).Neg(g.bigBelow(n))) // negative -> errInvalidSign (or 0)
			}
		}
		switch r.Intn(6) {
		case 0:
			return I(0)
		case 1:
			return Big(new(big.Int).Sub(pow2(n), big.NewInt(1)))
		case 2:
			return Big(g.bigBelow(min(n, 8)))
		default:
			return Big(g.bigBelow(n))
		}
	case kInt:
		n := t.n
		if wild && !native(n) && r.Chance(1, 3) {
			switch r.Intn(3) {
			case 0:
				return Big(pow2(n - 1)) // just above the declared maximum
			case 1:
				return Big(new(big.Int).Sub(g.bigBelow(256), pow2(255)))
			default:
				return Big(new(big.Int).Add(pow2(255), g.bigBelow(60))) // wraps
			}
		}
		switch r.Intn(6) {
		case 0:
			return I(0)
		case 1:
			return I(-1)
		case 2:
			return Big(new(big.Int).Neg(pow2(n - 1)))
		case 3:
			return Big(new(big.Int).Sub(pow2(n-1), big.NewInt(1)))
		default:
			return Big(new(big.Int).Sub(g.bigBelow(n), pow2(n-1)))
		}
	case kBool:
		return Bool(r.Bool())
	case kAddress:
		return B(r.Bytes(20))
	case kFixedBytes:
		return B(r.Bytes(t.n))
	case kBytes, kString:
		ln := []int{0, 1, 5, 31, 32, 33, 64, 70}[r.Intn(8)]
		if r.Bool() {
			ln = r.Intn(40)
		}
		return B(r.Bytes(ln))
	case kArray:
		n := r.Intn(4)
		if r.Chance(1, 10) {
			n = r.Intn(7)
		}
		out := SL{}
		for i := 0; i < n && g.budget > -40; i++ {
			g.budget--
			out = append(out, g.val(t.elem, wild))
		}
		return out
	case kFixedArray:
		out := SL{}
		for i := 0; i < t.n; i++ {
			out = append(out, g.val(t.elem, wild))
		}
		return out
	case kTuple:
		out := SL{}
		for _, f := range t.fields {
			out = append(out, g.val(f, wild))
		}
		return out
	}
	panic("hxlib: bad kind")
}

func (g *gen) args() ([]*T, SL) {
	g.budget = 14
	n := g.r.Range(1, 3)
	if g.r.Chance(1, 30) {
		n = 0
	}
	depth := g.r.Range(0, 4)
	var ts []*T
	tsx := SL{}
	for i := 0; i < n; i++ {
		t := g.ty(depth)
		ts = append(ts, t)
		tsx = append(tsx, t.sx())
	}
	return ts, tsx
}

func (g *gen) vals(ts []*T, wild bool) SL {
	g.budget = 30
	out := SL{}
	for _, t := range ts {
		out = append(out, g.val(t, wild))
	}
	return out
}

var interesting = []string{
	"00", "01", "1f", "20", "21", "3f", "40", "60", "80", "ff", "0100", "ffff",
	"7fffffffffffffff", "8000000000000000", "ffffffffffffffff", "010000000000000000",
	"7fffffffffffffffffffffffffffffffffffffffffffffffffffffffffffffff",
	"8000000000000000000000000000000000000000000000000000000000000000",
	"ffffffffffffffffffffffffffffffffffffffffffffffffffffffffffffffff",
	"7fffffffffffffe0", "7fffffffffffffdf", "00000001000000000000000000000020",
}

func (g *gen) mutate(base []byte) ([]byte, string) {
	r := g.r
	d := append([]byte{}, base...)
	nw := len(d) / 32
	switch r.Intn(9) {
	case 0: // replace one byte
		if len(d) > 0 {
			d[r.Intn(len(d))] = byte(r.U64())
		}
		return d, "m-byte"
	case 1, 2: // overwrite an aligned word with an interesting number (offset/length corruption)
		if nw > 0 {
			w := r.Intn(nw)
			var z *big.Int
			switch r.Intn(4) {
			case 0:
				z, _ = new(big.Int).SetString(interesting[r.Intn(len(interesting))], 16)
			case 1:
				z = big.NewInt(int64(len(d) + r.Range(-65, 65)))
			case 2:
				z = big.NewInt(int64(32 * r.Intn(nw+2)))
			default:
				z = new(big.Int).Add(new(big.Int).SetBytes(d[32*w:32*w+32]), big.NewInt(int64(r.Range(-33, 33))))
			}
			if z.Sign() < 0 {
				z.SetInt64(0)
			}
			copy(d[32*w:], word(z))
		}
		return d, "m-word"
	case 3: // truncate
		if len(d) > 0 {
			if r.Bool() && nw > 0 {
				return d[:32*r.Intn(nw)], "m-trunc"
			}
			return d[:r.Intn(len(d))], "m-trunc"
		}
		return d, "m-trunc"
	case 4: // extend
		return append(d, r.Bytes(r.Range(1, 40))...), "m-extend"
	case 5: // set high bytes of a word (dirty left padding / huge number)
		if nw > 0 {
			w := r.Intn(nw)
			d[32*w+r.Intn(24)] = byte(1 + r.Intn(255))
		}
		return d, "m-high"
	case 6: // set a trailing byte of a word (dirty right padding)
		if nw > 0 {
			w := r.Intn(nw)
			d[32*w+8+r.Intn(24)] = byte(1 + r.Intn(255))
		}
		return d, "m-low"
	case 7: // two mutations
		d1, _ := g.mutate(d)
		d2, _ := g.mutate(d1)
		return d2, "m-multi"
	default: // swap two words
		if nw > 1 {
			a, b := r.Intn(nw), r.Intn(nw)
			var tmp [32]byte
			copy(tmp[:], d[32*a:])
			copy(d[32*a:32*a+32], d[32*b:32*b+32])
			copy(d[32*b:32*b+32], tmp[:])
		}
		return d, "m-swap"
	}
}

func genCases(r *Rng, tier string, emit func(Sx)) {
	g := &gen{r: r}
	n := 12000
	if tier == "thorough" {
		n = 200000
	}
	for i := 0; i < n; i++ {
		ts, tsx := g.args()
		switch k := r.Intn(20); {
		case k < 7: // pack / round trip, ABI-typed values
			emit(L(I(0), tsx, g.vals(ts, false)))
		case k < 9: // values outside the declared width in *big.Int positions
			emit(L(I(0), tsx, g.vals(ts, true)))
		case k < 15: // mutated valid encodings
			vals := g.vals(ts, false)
			base, _ := specArgs(ts, vals)
			d, _ := g.mutate(base)
			emit(L(I(1), tsx, B(d)))
		case k < 16: // arbitrary bytes / small words
			var d []byte
			if r.Bool() {
				d = r.Bytes(r.Intn(200))
			} else {
				for j := r.Intn(8); j > 0; j-- {
					d = append(d, word(big.NewInt(int64(32*r.Intn(8))))...)
				}
			}
			emit(L(I(1), tsx, B(d)))
		default: // dirty padding by class
			vals := g.vals(ts, false)
			base, mask := specArgs(ts, vals)
			flag := 1 + r.Intn(2)
			if r.Chance(1, 4) {
				flag = 4 // upper bytes of a dynamic T[k] offset word: finding C51-offset-word-truncated
			}
			var pos []int
			for j, m := range mask {
				if int(m) == flag {
					pos = append(pos, j)
				}
			}
			if len(pos) == 0 {
				emit(L(I(0), tsx, vals))
				continue
			}
			d := append([]byte{}, base...)
			if flag == 1 {
				for j := r.Range(1, 6); j > 0; j-- {
					d[pos[r.Intn(len(pos))]] = byte(1 + r.Intn(255))
				}
			} else {
				p := pos[r.Intn(len(pos))]
				d[p] ^= byte(1 + r.Intn(255))
			}
			if flag == 4 {
				emit(L(I(1), tsx, B(d)))
				continue
			}
			emit(L(I(2), tsx, vals, B(d), I(int64(flag))))
		}
	}
}

func main() {
	if len(os.Args) >= 2 && os.Args[1] == "shrink" {
		shrinkMain()
		return
	}
	Main(Family{
		ID: "C51",
		Rule: "random argument lists (0-3 arguments) of nested ABI types (depth <= 4; uint/int widths 8..256; bytes1..32; T[k] with k in 0..3; tuples of 0..4 fields) with random values built by reflection from Type.GetType(): ABI-typed values, and values outside the declared width in *big.Int positions; valid encodings (from the harness's own specification encoder) mutated by byte replacement, offset/length word corruption, truncation, extension, dirty high/low padding, word swaps; arbitrary byte strings; encodings with only padding bytes dirtied, by class (tolerated / checked / upper bytes of a dynamic T[k] offset word). Oracle failures with a C51-<class> prefix are the recorded open findings (zero-size static component, non-canonical layout accepted, truncated offset word, unchecked integer width). Non-trivial: a round trip evaluated on an encoding of >= 64 bytes, a decode of >= 64 bytes that succeeded or of >= 32 bytes that failed, or a dirty-padding case whose expectation was evaluated; distinct = distinct case line.",
		Gen: genCases,
		Run: run,
	})
}
