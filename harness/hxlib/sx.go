// Package hxlib is the shared plumbing of the correspondence harness: the Sx
// value exchanged with the Coq models (see coq/Lib/Sx.v), a splitmix64 PRNG
// from which every random choice derives, and the gen/run/shrink CLI.
package hxlib

import (
	"encoding/hex"
	"fmt"
	"math/big"
	"strings"
)

// Sx mirrors coq/Lib/Sx.v: SI (integer) | SB (bytes) | SL (list).
type Sx interface {
	write(sb *strings.Builder)
}

type SI struct{ V *big.Int }
type SB []byte
type SL []Sx

func I(v int64) Sx        { return SI{big.NewInt(v)} }
func U(v uint64) Sx       { return SI{new(big.Int).SetUint64(v)} }
func Big(v *big.Int) Sx   { return SI{new(big.Int).Set(v)} }
func B(b []byte) Sx       { return SB(append([]byte{}, b...)) }
func L(items ...Sx) Sx    { return SL(items) }
func Bool(b bool) Sx      { if b { return I(1) }; return I(0) }
func Opt(ok bool, v Sx) Sx { if ok { return SL{v} }; return SL{} }

func (v SI) write(sb *strings.Builder) {
	if v.V.Sign() < 0 {
		sb.WriteByte('-')
		sb.WriteString(new(big.Int).Neg(v.V).Text(16))
	} else {
		sb.WriteString(v.V.Text(16))
	}
}
func (v SB) write(sb *strings.Builder) {
	sb.WriteByte('x')
	sb.WriteString(hex.EncodeToString(v))
}
func (v SL) write(sb *strings.Builder) {
	sb.WriteByte('(')
	for i, x := range v {
		if i > 0 {
			sb.WriteByte(' ')
		}
		x.write(sb)
	}
	sb.WriteByte(')')
}

func String(v Sx) string {
	var sb strings.Builder
	v.write(&sb)
	return sb.String()
}

// Parse reads one Sx from a line (the inverse of String).
func Parse(s string) (Sx, error) {
	p := &parser{s: s}
	v, err := p.item()
	if err != nil {
		return nil, err
	}
	p.skip()
	if p.pos != len(p.s) {
		return nil, fmt.Errorf("trailing input at %d", p.pos)
	}
	return v, nil
}

type parser struct {
	s   string
	pos int
}

func (p *parser) skip() {
	for p.pos < len(p.s) && (p.s[p.pos] == ' ' || p.s[p.pos] == '\t') {
		p.pos++
	}
}

func (p *parser) item() (Sx, error) {
	p.skip()
	if p.pos >= len(p.s) {
		return nil, fmt.Errorf("unexpected end")
	}
	if p.s[p.pos] == '(' {
		p.pos++
		out := SL{}
		for {
			p.skip()
			if p.pos >= len(p.s) {
				return nil, fmt.Errorf("unclosed list")
			}
			if p.s[p.pos] == ')' {
				p.pos++
				return out, nil
			}
			it, err := p.item()
			if err != nil {
				return nil, err
			}
			out = append(out, it)
		}
	}
	st := p.pos
	for p.pos < len(p.s) && !strings.ContainsRune(" \t()", rune(p.s[p.pos])) {
		p.pos++
	}
	t := p.s[st:p.pos]
	if t == "" {
		return nil, fmt.Errorf("empty token at %d", st)
	}
	if t[0] == 'x' {
		b, err := hex.DecodeString(t[1:])
		if err != nil {
			return nil, err
		}
		return SB(b), nil
	}
	neg := false
	if t[0] == '-' {
		neg = true
		t = t[1:]
	}
	v, ok := new(big.Int).SetString(t, 16)
	if !ok {
		return nil, fmt.Errorf("bad number %q", t)
	}
	if neg {
		v.Neg(v)
	}
	return SI{v}, nil
}

// Accessors used by family Run functions; they panic on shape errors, which
// the CLI reports as a harness error (never as an implementation observation).
func AsList(v Sx) SL {
	l, ok := v.(SL)
	if !ok {
		panic(fmt.Sprintf("hxlib: expected list, got %s", String(v)))
	}
	return l
}
func AsBytes(v Sx) []byte {
	b, ok := v.(SB)
	if !ok {
		panic(fmt.Sprintf("hxlib: expected bytes, got %s", String(v)))
	}
	return append([]byte{}, b...)
}
func AsBig(v Sx) *big.Int {
	i, ok := v.(SI)
	if !ok {
		panic(fmt.Sprintf("hxlib: expected int, got %s", String(v)))
	}
	return new(big.Int).Set(i.V)
}
func AsInt(v Sx) int       { return int(AsBig(v).Int64()) }
func AsU64(v Sx) uint64    { return AsBig(v).Uint64() }
func AsBool(v Sx) bool     { return AsBig(v).Sign() != 0 }
var bigTwo = big.NewInt(2)
