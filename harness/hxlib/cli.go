package hxlib

import (
	"bufio"
	"flag"
	"fmt"
	"os"
	"runtime/debug"
	"sort"
	"strings"
	"time"
)

// Rng is splitmix64; every random choice of a run derives from one seed.
type Rng struct{ s uint64 }

// NewRng scrambles the seed first, so that seeds n and n+1 give unrelated streams
// (with the plain golden-ratio increment they were shifted copies of each other).
func NewRng(seed uint64) *Rng {
	z := seed + 0x1234567
	z = (z ^ (z >> 33)) * 0xFF51AFD7ED558CCD
	z = (z ^ (z >> 33)) * 0xC4CEB9FE1A85EC53
	z ^= z >> 33
	return &Rng{s: z}
}
func (r *Rng) U64() uint64 {
	r.s += 0x9E3779B97F4A7C15
	z := r.s
	z = (z ^ (z >> 30)) * 0xBF58476D1CE4E5B9
	z = (z ^ (z >> 27)) * 0x94D049BB133111EB
	return z ^ (z >> 31)
}
func (r *Rng) Intn(n int) int {
	if n <= 0 {
		return 0
	}
	return int(r.U64() % uint64(n))
}
func (r *Rng) Range(lo, hi int) int { return lo + r.Intn(hi-lo+1) } // inclusive
func (r *Rng) Bool() bool            { return r.U64()&1 == 1 }
func (r *Rng) Chance(num, den int) bool { return r.Intn(den) < num }
func (r *Rng) Bytes(n int) []byte {
	b := make([]byte, n)
	for i := range b {
		b[i] = byte(r.U64())
	}
	return b
}
func (r *Rng) Fork() *Rng { return &Rng{s: r.U64()} }

// Result of running the implementation on one case.
type Result struct {
	Obs        Sx       // projected observables, compared textually with the model's output
	Oracle     string   // "" = the direct property oracle holds on the implementation; else what failed
	Tags       []string // input-distribution tags (sizes, branches reached, error classes)
	NonTrivial bool     // the family's non-triviality rule
}

type Family struct {
	ID   string
	Rule string // how cases are generated and what makes one non-trivial (goes into the evidence)
	Gen  func(r *Rng, tier string, emit func(c Sx))
	Run  func(c Sx) Result
	// CaseTimeout bounds one Run call (default 120 s): a looping implementation is
	// reported as an oracle failure ("case timed out") instead of stalling the run.
	CaseTimeout time.Duration
}

// runOneTimed runs one case under the family's per-case timeout (the goroutine of a
// timed-out case is abandoned).
func runOneTimed(f Family, c Sx) (Result, bool) {
	d := f.CaseTimeout
	if d == 0 {
		d = 120 * time.Second
	}
	type out struct {
		r     Result
		shape bool
	}
	ch := make(chan out, 1)
	go func() {
		r, s := runOne(f, c)
		ch <- out{r, s}
	}()
	select {
	case o := <-ch:
		return o.r, o.shape
	case <-time.After(d):
		return Result{Obs: nil, Oracle: fmt.Sprintf("case timed out after %v (implementation does not terminate?)", d)}, false
	}
}

type shapeError struct{ msg string }

// runOne recovers panics: an unexpected panic of the implementation is an
// observation ("!panic") and an oracle failure; a harness shape error is reported apart.
func runOne(f Family, c Sx) (res Result, shape bool) {
	defer func() {
		if e := recover(); e != nil {
			msg := fmt.Sprint(e)
			if strings.HasPrefix(msg, "hxlib:") {
				shape = true
				res = Result{Obs: SL{}, Oracle: "harness shape error: " + msg}
				return
			}
			st := string(debug.Stack())
			if panicInHarness(st) {
				// the harness itself mis-indexed the case (e.g. a shrink candidate of the wrong shape)
				shape = true
				res = Result{Obs: SL{}, Oracle: "harness shape error: " + msg}
				return
			}
			if len(st) > 1500 {
				st = st[:1500]
			}
			res = Result{Obs: nil, Oracle: "unexpected panic: " + msg + " | " + strings.ReplaceAll(st, "\n", " ; ")}
		}
	}()
	res = f.Run(c)
	return
}

// panicInHarness reports whether the innermost non-runtime frame of a recovered
// panic lies in harness code (package main / gethverif) rather than in go-ethereum.
func panicInHarness(stack string) bool {
	lines := strings.Split(stack, "\n")
	seenPanic := false
	for _, l := range lines {
		if strings.HasPrefix(l, "\t") || strings.HasPrefix(l, " ") {
			continue
		}
		if strings.HasPrefix(l, "panic(") {
			seenPanic = true
			continue
		}
		if !seenPanic {
			continue
		}
		if strings.HasPrefix(l, "runtime.") || strings.HasPrefix(l, "runtime/") {
			continue
		}
		return strings.HasPrefix(l, "main.") || strings.HasPrefix(l, "gethverif/")
	}
	return false
}

func obsString(r Result) string {
	if r.Obs == nil {
		return "!panic"
	}
	return String(r.Obs)
}

// Main is the entry point of every family binary.
//   gen -seed N -tier quick|thorough        cases to stdout
//   run                                     cases on stdin -> "obs \t oracle \t tags \t nt" per line
//   shrink                                  one failing case on stdin -> minimal failing case (oracle predicate)
func Main(f Family) {
	if len(os.Args) < 2 {
		fmt.Fprintln(os.Stderr, "usage: hx gen|run|shrink|rule")
		os.Exit(2)
	}
	fs := flag.NewFlagSet(os.Args[1], flag.ExitOnError)
	seed := fs.Uint64("seed", 1, "seed")
	tier := fs.String("tier", "quick", "quick|thorough")
	fs.Parse(os.Args[2:])
	out := bufio.NewWriterSize(os.Stdout, 1<<20)
	defer out.Flush()
	switch os.Args[1] {
	case "rule":
		fmt.Fprintln(out, f.Rule)
	case "gen":
		f.Gen(NewRng(*seed), *tier, func(c Sx) { fmt.Fprintln(out, String(c)) })
	case "run":
		sc := bufio.NewScanner(os.Stdin)
		sc.Buffer(make([]byte, 1<<20), 1<<28)
		for sc.Scan() {
			line := sc.Text()
			if line == "" {
				continue
			}
			c, err := Parse(line)
			if err != nil {
				fmt.Fprintf(out, "!parse\tharness parse error: %v\t\t0\n", err)
				continue
			}
			r, _ := runOneTimed(f, c)
			nt := "0"
			if r.NonTrivial {
				nt = "1"
			}
			sort.Strings(r.Tags)
			fmt.Fprintf(out, "%s\t%s\t%s\t%s\n", obsString(r), strings.ReplaceAll(r.Oracle, "\t", " "), strings.Join(r.Tags, ","), nt)
		}
	case "shrink":
		sc := bufio.NewScanner(os.Stdin)
		sc.Buffer(make([]byte, 1<<20), 1<<28)
		for sc.Scan() {
			line := sc.Text()
			if line == "" {
				continue
			}
			c, err := Parse(line)
			if err != nil {
				fmt.Fprintln(out, line)
				continue
			}
			fails := func(x Sx) bool {
				r, shape := runOneTimed(f, x)
				return !shape && r.Oracle != ""
			}
			if fails(c) {
				c = Shrink(c, fails)
			}
			fmt.Fprintln(out, String(c))
		}
	default:
		fmt.Fprintln(os.Stderr, "unknown command", os.Args[1])
		os.Exit(2)
	}
}

// Shrink is greedy delta-debugging on the Sx structure with predicate [fails]:
// drop list elements (halves first), shorten and zero byte strings, halve integers.
func Shrink(c Sx, fails func(Sx) bool) Sx {
	budget := 4000
	for changed := true; changed && budget > 0; {
		changed = false
		for _, cand := range candidates(c) {
			budget--
			if budget <= 0 {
				break
			}
			if fails(cand) {
				c = cand
				changed = true
				break
			}
		}
	}
	return c
}

func candidates(c Sx) []Sx {
	var out []Sx
	switch v := c.(type) {
	case SL:
		n := len(v)
		if n >= 4 {
			out = append(out, append(SL{}, v[:n/2]...), append(SL{}, v[n/2:]...))
		}
		for i := n - 1; i >= 0; i-- {
			w := append(append(SL{}, v[:i]...), v[i+1:]...)
			out = append(out, w)
		}
		for i := 0; i < n; i++ {
			for _, sub := range candidates(v[i]) {
				w := append(SL{}, v...)
				w[i] = sub
				out = append(out, w)
			}
		}
	case SB:
		n := len(v)
		if n > 0 {
			out = append(out, SB(append([]byte{}, v[:n/2]...)), SB(append([]byte{}, v[:n-1]...)), SB(append([]byte{}, v[1:]...)))
			for i := 0; i < n && i < 64; i++ {
				if v[i] != 0 {
					w := append([]byte{}, v...)
					w[i] = 0
					out = append(out, SB(w))
				}
			}
		}
	case SI:
		if v.V.Sign() != 0 {
			out = append(out, I(0))
			h := Big(v.V)
			h.(SI).V.Quo(h.(SI).V, bigTwo)
			out = append(out, h)
		}
	}
	return out
}
