// Family c04: geth's Keccak-256 (crypto.Keccak256 / Keccak256Hash / HashData / NewKeccakState,
// crypto/keccak.NewLegacyKeccak256 — the amd64 assembly permutation on this machine) vs the
// extracted Coq model coq/Keccak/Sponge.v, with golang.org/x/crypto/sha3 (pure Go legacy
// Keccak) as the second Go implementation for the direct oracle.
package main

import (
	"bytes"
	"fmt"
	"hash"

	"github.com/ethereum/go-ethereum/crypto"
	"github.com/ethereum/go-ethereum/crypto/keccak"
	. "gethverif/harness/hxlib"
	xsha3 "golang.org/x/crypto/sha3"
)

type reader interface {
	hash.Hash
	Read([]byte) (int, error)
}

func cp(b []byte) []byte { return append([]byte{}, b...) }

// second implementation: one-shot digest and output stream
func refDigest(msg []byte) []byte {
	h := xsha3.NewLegacyKeccak256()
	h.Write(msg)
	return h.Sum(nil)
}

func refStream(msg []byte, pos, k int) []byte {
	h := xsha3.NewLegacyKeccak256().(reader)
	h.Write(msg)
	out := make([]byte, pos+k)
	h.Read(out)
	return out[pos:]
}

// catchPanic runs f and maps a panic to its class: 1 "Write after Read", 2 "Sum after Read", 9 anything else
func catchPanic(f func()) (class int) {
	defer func() {
		if e := recover(); e != nil {
			switch fmt.Sprint(e) {
			case "sha3: Write after Read":
				class = 1
			case "sha3: Sum after Read":
				class = 2
			default:
				class = 9
			}
		}
	}()
	f()
	return 0
}

func lenTag(prefix string, n int) string {
	switch {
	case n == 0:
		return prefix + "0"
	case n < 32:
		return prefix + "1-31"
	case n < 135:
		return prefix + "32-134"
	case n <= 137:
		return prefix + "135-137"
	case n < 271:
		return prefix + "138-270"
	case n <= 273:
		return prefix + "271-273"
	case n <= 547:
		return prefix + "274-547"
	default:
		return prefix + "548+"
	}
}

// a hasher left in some arbitrary earlier state (absorbing or squeezing)
func dirtyState(seed []byte) crypto.KeccakState {
	st := crypto.NewKeccakState()
	st.Write(seed)
	if len(seed)%2 == 1 {
		st.Read(make([]byte, 1+len(seed)%200))
	}
	return st
}

func runOneShot(msg []byte) Result {
	res := Result{}
	orig := cp(msg)
	d1 := crypto.Keccak256(msg)
	d2 := crypto.Keccak256Hash(msg)
	d3 := crypto.HashData(dirtyState(msg), msg)
	st := crypto.NewKeccakState()
	n, err := st.Write(msg)
	d4 := make([]byte, 32)
	st.Read(d4)
	h5 := keccak.NewLegacyKeccak256()
	h5.Write(msg)
	d5 := h5.Sum(nil)
	ref := refDigest(msg)
	res.Obs = L(B(d1), B(ref))
	var fails []string
	if n != len(msg) || err != nil {
		fails = append(fails, fmt.Sprintf("Write returned (%d,%v) for %d bytes", n, err, len(msg)))
	}
	if !bytes.Equal(msg, orig) {
		fails = append(fails, "the input slice was modified")
	}
	for i, d := range [][]byte{d2[:], d3[:], d4, d5} {
		if !bytes.Equal(d, d1) {
			fails = append(fails, fmt.Sprintf("path %d (1 Keccak256Hash, 2 HashData on a used hasher, 3 NewKeccakState Write+Read, 4 keccak.NewLegacyKeccak256 Write+Sum) gives %x, crypto.Keccak256 gives %x", i+1, d, d1))
		}
	}
	if !bytes.Equal(d1, ref) {
		fails = append(fails, fmt.Sprintf("crypto.Keccak256 = %x but golang.org/x/crypto/sha3 legacy Keccak-256 = %x", d1, ref))
	}
	if len(msg) <= 300 { // byte-at-a-time
		st := crypto.NewKeccakState()
		for i := range msg {
			st.Write(msg[i : i+1])
		}
		d := st.Sum(nil)
		if !bytes.Equal(d, d1) {
			fails = append(fails, fmt.Sprintf("byte-at-a-time writes give %x, one-shot %x", d, d1))
		}
	}
	if len(fails) > 0 {
		res.Oracle = fmt.Sprint(fails)
	}
	res.Tags = []string{"oneshot", lenTag("len", len(msg))}
	res.NonTrivial = true
	return res
}

func runChunks(chunks [][]byte) Result {
	res := Result{}
	var all []byte
	for _, c := range chunks {
		all = append(all, c...)
	}
	var fails []string
	st := crypto.NewKeccakState()
	st2 := keccak.NewLegacyKeccak256()
	for _, c := range chunks {
		n, err := st.Write(c)
		if n != len(c) || err != nil {
			fails = append(fails, fmt.Sprintf("Write returned (%d,%v) for %d bytes", n, err, len(c)))
		}
		st2.Write(c)
	}
	d := make([]byte, 32)
	st.Read(d)
	res.Obs = B(d)
	one := crypto.Keccak256(all)
	if !bytes.Equal(d, one) {
		fails = append(fails, fmt.Sprintf("chunked writes + Read give %x, one-shot crypto.Keccak256 gives %x", d, one))
	}
	if v := crypto.Keccak256(chunks...); !bytes.Equal(v, one) {
		fails = append(fails, fmt.Sprintf("crypto.Keccak256(chunks...) gives %x, one-shot gives %x", v, one))
	}
	if v := crypto.Keccak256Hash(chunks...); !bytes.Equal(v[:], one) {
		fails = append(fails, fmt.Sprintf("crypto.Keccak256Hash(chunks...) gives %x, one-shot gives %x", v, one))
	}
	if v := st2.Sum(nil); !bytes.Equal(v, one) {
		fails = append(fails, fmt.Sprintf("chunked writes + Sum give %x, one-shot gives %x", v, one))
	}
	if ref := refDigest(all); !bytes.Equal(one, ref) {
		fails = append(fails, fmt.Sprintf("crypto.Keccak256 = %x but golang.org/x/crypto/sha3 = %x", one, ref))
	}
	if len(fails) > 0 {
		res.Oracle = fmt.Sprint(fails)
	}
	res.Tags = []string{"chunks", fmt.Sprintf("nchunks%d", min(len(chunks), 9)), lenTag("len", len(all))}
	for _, c := range chunks {
		if len(c) == 0 {
			res.Tags = append(res.Tags, "emptychunk")
			break
		}
	}
	if len(all) > 136 {
		cross := false
		off := 0
		for _, c := range chunks[:max(len(chunks)-1, 0)] {
			off += len(c)
			if off%136 != 0 {
				cross = true
			}
		}
		if cross {
			res.Tags = append(res.Tags, "split-inside-block")
		}
	}
	res.NonTrivial = len(chunks) >= 2 && len(all) > 0
	return res
}

func runScript(ops []Sx) Result {
	res := Result{}
	st := crypto.NewKeccakState()
	var msg []byte // written since the last Reset
	squeezing := false
	pos := 0
	var obs []Sx
	var fails []string
	nsum, nread, npanic, nreset := 0, 0, 0, 0
	for i, o := range ops {
		l := AsList(o)
		switch AsInt(l[0]) {
		case 0:
			p := AsBytes(l[1])
			var n int
			var err error
			cl := catchPanic(func() { n, err = st.Write(cp(p)) })
			if cl != 0 {
				obs = append(obs, L(I(int64(cl))))
				npanic++
				if !squeezing || cl != 1 {
					fails = append(fails, fmt.Sprintf("op %d: Write panicked with class %d (squeezing=%v)", i, cl, squeezing))
				}
			} else {
				obs = append(obs, L())
				if squeezing {
					fails = append(fails, fmt.Sprintf("op %d: Write after Read did not panic", i))
				}
				if n != len(p) || err != nil {
					fails = append(fails, fmt.Sprintf("op %d: Write returned (%d,%v) for %d bytes", i, n, err, len(p)))
				}
				msg = append(msg, p...)
			}
		case 1:
			in := AsBytes(l[1])
			var out []byte
			cl := catchPanic(func() { out = st.Sum(cp(in)) })
			if cl != 0 {
				obs = append(obs, L(I(int64(cl))))
				npanic++
				if !squeezing || cl != 2 {
					fails = append(fails, fmt.Sprintf("op %d: Sum panicked with class %d (squeezing=%v)", i, cl, squeezing))
				}
			} else {
				nsum++
				obs = append(obs, B(out))
				want := append(cp(in), crypto.Keccak256(msg)...)
				if squeezing {
					fails = append(fails, fmt.Sprintf("op %d: Sum after Read did not panic", i))
				} else if !bytes.Equal(out, want) {
					fails = append(fails, fmt.Sprintf("op %d: Sum after %d bytes in several writes = %x, prefix ++ one-shot digest = %x", i, len(msg), out, want))
				} else if ref := refDigest(msg); !bytes.Equal(out[len(in):], ref) {
					fails = append(fails, fmt.Sprintf("op %d: Sum = %x but golang.org/x/crypto/sha3 = %x", i, out[len(in):], ref))
				}
			}
		case 2:
			k := AsInt(l[1])
			out := make([]byte, k)
			var n int
			cl := catchPanic(func() { n, _ = st.Read(out) })
			if cl != 0 {
				obs = append(obs, L(I(int64(cl))))
				fails = append(fails, fmt.Sprintf("op %d: Read panicked", i))
			} else {
				nread++
				obs = append(obs, B(out))
				if n != k {
					fails = append(fails, fmt.Sprintf("op %d: Read returned %d for %d bytes", i, n, k))
				}
				if !squeezing {
					squeezing, pos = true, 0
				}
				if want := refStream(msg, pos, k); !bytes.Equal(out, want) {
					fails = append(fails, fmt.Sprintf("op %d: Read of output bytes %d..%d = %x, one-shot stream of golang.org/x/crypto/sha3 = %x", i, pos, pos+k, out, want))
				}
				if pos == 0 && k >= 32 {
					if one := crypto.Keccak256(msg); !bytes.Equal(out[:32], one) {
						fails = append(fails, fmt.Sprintf("op %d: Read = %x, one-shot digest %x", i, out[:32], one))
					}
				}
				pos += k
			}
		case 3:
			st.Reset()
			nreset++
			obs = append(obs, L())
			msg, squeezing, pos = nil, false, 0
		default:
			panic("hxlib: unknown op")
		}
	}
	res.Obs = L(obs...)
	if len(fails) > 0 {
		res.Oracle = fmt.Sprint(fails)
	}
	res.Tags = []string{"script", fmt.Sprintf("nops%d", min(len(ops), 12))}
	if nsum > 0 {
		res.Tags = append(res.Tags, "sum")
	}
	if nsum > 1 {
		res.Tags = append(res.Tags, "sum-write-sum")
	}
	if nread > 1 {
		res.Tags = append(res.Tags, "multi-read")
	}
	if npanic > 0 {
		res.Tags = append(res.Tags, "panic")
	}
	if nreset > 0 {
		res.Tags = append(res.Tags, "reset")
	}
	res.NonTrivial = nsum+nread > 0 && len(ops) >= 2
	return res
}

func run(c Sx) Result {
	l := AsList(c)
	if len(l) == 0 {
		panic("hxlib: empty case")
	}
	switch AsInt(l[0]) {
	case 0:
		if len(l) != 2 {
			panic("hxlib: bad one-shot case")
		}
		return runOneShot(AsBytes(l[1]))
	case 1:
		var chunks [][]byte
		for _, x := range l[1:] {
			chunks = append(chunks, AsBytes(x))
		}
		return runChunks(chunks)
	case 2:
		return runScript(l[1:])
	}
	panic("hxlib: unknown case kind")
}

// lengths that sit on the interesting boundaries of the rate-136 buffer
func edgeLen(r *Rng) int {
	base := 136 * r.Intn(5)
	switch r.Intn(6) {
	case 0:
		return r.Intn(4)
	case 1:
		return base + r.Intn(3)
	case 2:
		return max(base-1-r.Intn(2), 0)
	case 3:
		return r.Intn(33)
	case 4:
		return r.Intn(300)
	default:
		return r.Intn(137)
	}
}

func content(r *Rng, n int) []byte {
	switch r.Intn(8) {
	case 0:
		return make([]byte, n)
	case 1:
		return bytes.Repeat([]byte{0xff}, n)
	case 2: // padding look-alikes
		b := make([]byte, n)
		for i := range b {
			b[i] = []byte{0x01, 0x80, 0x81, 0x06, 0x00}[r.Intn(5)]
		}
		return b
	default:
		return r.Bytes(n)
	}
}

func split2(msg []byte, at int) Sx {
	return L(I(1), B(msg[:at]), B(msg[at:]))
}

func gen(r *Rng, tier string, emit func(Sx)) {
	thorough := tier == "thorough"
	// (a) every length 0 .. 4*136+3, one-shot
	maxLen := 4*136 + 3
	if thorough {
		maxLen = 1100
	}
	for n := 0; n <= maxLen; n++ {
		emit(L(I(0), B(content(r, n))))
	}
	// random lengths up to 2 kB (thorough: 8 kB)
	nr, top := 60, 2048
	if thorough {
		nr, top = 1500, 8192
	}
	for i := 0; i < nr; i++ {
		emit(L(I(0), B(content(r, r.Intn(top+1)))))
	}
	// (b) every 2-split of short inputs
	var lens []int
	if thorough {
		for n := 0; n <= 280; n++ {
			lens = append(lens, n)
		}
	} else {
		for n := 0; n <= 10; n++ {
			lens = append(lens, n)
		}
		lens = append(lens, 135, 136, 137, 271, 272, 273)
	}
	for _, n := range lens {
		msg := content(r, n)
		for at := 0; at <= n; at++ {
			emit(split2(msg, at))
		}
	}
	if thorough { // longer inputs: split points around every block boundary
		for n := 281; n <= 1100; n++ {
			msg := content(r, n)
			seen := map[int]bool{}
			pts := []int{0, 1, n - 1, n, r.Intn(n + 1), r.Intn(n + 1)}
			for j := 136; j <= n+1; j += 136 {
				pts = append(pts, j-1, j, j+1)
			}
			for _, at := range pts {
				if at >= 0 && at <= n && !seen[at] {
					seen[at] = true
					emit(split2(msg, at))
				}
			}
		}
	}
	// random k-splits
	nk := 400
	if thorough {
		nk = 20000
	}
	for i := 0; i < nk; i++ {
		k := 1 + r.Intn(8)
		c := []Sx{I(1)}
		for j := 0; j < k; j++ {
			n := edgeLen(r)
			if r.Chance(1, 12) {
				n = r.Intn(2049)
			}
			c = append(c, B(content(r, n)))
		}
		emit(L(c...))
	}
	// (c) scripts of interleaved Write / Sum / Read / Reset (Write and Sum after Read must panic)
	ns := 700
	if thorough {
		ns = 30000
	}
	for i := 0; i < ns; i++ {
		nops := 1 + r.Intn(12)
		c := []Sx{I(2)}
		squeezing := false
		for j := 0; j < nops; j++ {
			x := r.Intn(20)
			switch {
			case squeezing && x < 8: // keep reading
				c = append(c, L(I(2), I(int64(readLen(r)))))
			case squeezing && x < 13:
				c = append(c, L(I(3)))
				squeezing = false
			case x < 9:
				c = append(c, L(I(0), B(content(r, edgeLen(r)))))
			case x < 14:
				c = append(c, L(I(1), B(r.Bytes(r.Intn(3)*r.Intn(20)))))
			case x < 17:
				c = append(c, L(I(2), I(int64(readLen(r)))))
				squeezing = true
			case x < 19:
				c = append(c, L(I(3)))
				squeezing = false
			default: // malformed use: Write right after a Read
				c = append(c, L(I(2), I(int64(r.Intn(3)))), L(I(0), B(r.Bytes(r.Intn(5)))))
				squeezing = true
			}
		}
		emit(L(c...))
	}
}

func readLen(r *Rng) int {
	switch r.Intn(6) {
	case 0:
		return r.Intn(3)
	case 1:
		return 32
	case 2:
		return 135 + r.Intn(3)
	case 3:
		return r.Intn(137)
	case 4:
		return 136*r.Intn(4) + r.Intn(3)
	default:
		return r.Intn(500)
	}
}

func main() {
	Main(Family{
		ID:   "C04",
		Rule: "one-shot inputs of every length 0..547 (thorough 0..1100) plus random lengths to 2 kB (8 kB), contents random / all-zero / all-0xff / padding look-alikes; every 2-split of inputs of length 0..10, 135..137, 271..273 (thorough: every 2-split up to 280 bytes and block-boundary splits up to 1100); random k-splits (k<=8, chunk lengths biased to 0 and to multiples of 136 +-2); random scripts of up to 12 interleaved Write/Sum(prefix)/Read(k)/Reset calls including Write/Sum after Read (must panic) as the malformed stream. Each case runs crypto.Keccak256, Keccak256Hash, HashData on a used hasher, NewKeccakState Write/Read/Sum/Reset and keccak.NewLegacyKeccak256; oracle = all paths and all chunkings equal the one-shot digest and golang.org/x/crypto/sha3's legacy Keccak-256 (digest and output stream). Non-trivial: every one-shot case; a chunked case with >= 2 chunks and a non-empty input; a script with >= 2 ops containing a Sum or Read; distinct = distinct case line.",
		Gen:  gen,
		Run:  run,
	})
}
