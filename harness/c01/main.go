// Family c01: /repo/rlp (decode.go Stream, raw.go splitters, encode.go/encbuffer.go
// encoder) vs coq/Rlp/{Raw,Codec,Stream}.v.
package main

import (
	"bytes"
	"fmt"
	"io"
	"math/big"
	"reflect"
	"strings"

	"github.com/ethereum/go-ethereum/rlp"
	"github.com/holiman/uint256"
	. "gethverif/harness/hxlib"
)

// ---------- error classes (coq/Rlp/Item.v err_code) ----------

func class(err error) int64 {
	if err == nil {
		return 0
	}
	switch err {
	case rlp.EOL:
		return 1
	case io.EOF:
		return 2
	case io.ErrUnexpectedEOF:
		return 3
	case rlp.ErrCanonSize:
		return 4
	case rlp.ErrCanonInt:
		return 5
	case rlp.ErrElemTooLarge:
		return 6
	case rlp.ErrValueTooLarge:
		return 7
	case rlp.ErrExpectedString:
		return 8
	case rlp.ErrExpectedList:
		return 9
	case rlp.VerifErrUintOverflow:
		return 10
	case rlp.VerifErrNotAtEOL:
		return 11
	case rlp.VerifErrNotInList:
		return 12
	case rlp.ErrMoreThanOneValue:
		return 13
	case rlp.VerifErrUint256Large:
		return 14
	}
	if msg, ok := rlp.VerifDecodeErrorMsg(err); ok {
		switch msg {
		case "non-canonical size information":
			return 4
		case "non-canonical integer (leading zero bytes)":
			return 5
		case "expected input string or byte":
			return 8
		case "expected input list":
			return 9
		case "input string too long":
			return 10
		case "input list has too many elements":
			return 11
		case "input string too short":
			return 16
		case "input list has too few elements":
			return 17
		}
		return 97
	}
	if strings.HasPrefix(err.Error(), "rlp: invalid boolean value") {
		return 15
	}
	return 98
}

func okv(v ...Sx) Sx     { return L(append([]Sx{I(0)}, v...)...) }
func erv(err error) Sx   { return L(I(1), I(class(err))) }
func tagc(err error) string {
	if err == nil {
		return "ok"
	}
	return fmt.Sprintf("e%d", class(err))
}

// ---------- trees ----------

// decoded interface{} value -> Sx tree ([]byte -> x.., []interface{} -> (..))
func treeOf(v interface{}) Sx {
	switch t := v.(type) {
	case []byte:
		return B(t)
	case []interface{}:
		out := SL{}
		for _, e := range t {
			out = append(out, treeOf(e))
		}
		return out
	}
	panic(fmt.Sprintf("hxlib: unexpected decoded type %T", v))
}

// Sx tree -> value accepted by EncodeToBytes
func valOf(t Sx) interface{} {
	switch x := t.(type) {
	case SB:
		return []byte(x)
	case SL:
		out := make([]interface{}, 0, len(x))
		for _, e := range x {
			out = append(out, valOf(e))
		}
		return out
	}
	panic("hxlib: tree expected")
}

func nodes(t Sx) int {
	if l, ok := t.(SL); ok {
		n := 1
		for _, e := range l {
			n += nodes(e)
		}
		return n
	}
	return 1
}

// independent reference encoder used by the generator and the oracle; records
// the offset of every header so that mutations can aim at them
type hdr struct {
	off    int // offset of the tag byte
	lenlen int // number of size bytes after the tag (0 = short form, -1 = single byte, no header)
	list   bool
}

func refHead(small, large byte, n int) []byte {
	if n < 56 {
		return []byte{small + byte(n)}
	}
	sb := new(big.Int).SetUint64(uint64(n)).Bytes()
	return append([]byte{large + byte(len(sb))}, sb...)
}

func refEnc(t Sx, base int, hs *[]hdr) []byte {
	switch x := t.(type) {
	case SB:
		if len(x) == 1 && x[0] < 0x80 {
			if hs != nil {
				*hs = append(*hs, hdr{base, -1, false})
			}
			return []byte{x[0]}
		}
		h := refHead(0x80, 0xB7, len(x))
		if hs != nil {
			*hs = append(*hs, hdr{base, len(h) - 1, false})
		}
		return append(h, x...)
	case SL:
		// payload first with provisional base, then fix offsets by header length
		var sub []hdr
		var payload []byte
		for _, e := range x {
			payload = append(payload, refEnc(e, len(payload), &sub)...)
		}
		h := refHead(0xC0, 0xF7, len(payload))
		if hs != nil {
			*hs = append(*hs, hdr{base, len(h) - 1, true})
			for _, s := range sub {
				s.off += base + len(h)
				*hs = append(*hs, s)
			}
		}
		return append(h, payload...)
	}
	panic("hxlib: tree expected")
}

// ---------- the fixed typed schema (nested slices / structs / all integer kinds) ----------

type inner struct {
	A uint16
	B []byte
	C *big.Int
}
type outer struct {
	X uint64
	Y [4]byte
	Z []inner
	S string
	F bool
	U uint256.Int
	L [][]byte
}

func outerOf(l SL) outer {
	var o outer
	o.X = AsU64(l[0])
	y := AsBytes(l[1])
	if len(y) != 4 {
		panic("hxlib: Y must have 4 bytes")
	}
	copy(o.Y[:], y)
	for _, e := range AsList(l[2]) {
		el := AsList(e)
		o.Z = append(o.Z, inner{uint16(AsU64(el[0])), AsBytes(el[1]), AsBig(el[2])})
	}
	o.S = string(AsBytes(l[3]))
	o.F = AsBool(l[4])
	o.U.SetFromBig(AsBig(l[5]))
	for _, e := range AsList(l[6]) {
		o.L = append(o.L, AsBytes(e))
	}
	return o
}

func dumpOuter(o *outer) string {
	z := SL{}
	for _, e := range o.Z {
		c := e.C
		if c == nil {
			c = new(big.Int)
		}
		z = append(z, L(U(uint64(e.A)), B(e.B), Big(c)))
	}
	bl := SL{}
	for _, e := range o.L {
		bl = append(bl, B(e))
	}
	return String(L(U(o.X), B(o.Y[:]), z, B([]byte(o.S)), Bool(o.F), Big(o.U.ToBig()), bl))
}

// ---------- case 0: decoders on one byte string ----------

func decodeInto(b []byte, ptr interface{}, show func() Sx) (Sx, error) {
	err := rlp.DecodeBytes(b, ptr)
	if err != nil {
		return erv(err), err
	}
	return okv(show()), nil
}

func run0(b []byte, n int) Result {
	res := Result{}
	var fails []string
	cp := func() []byte { return append([]byte{}, b...) }

	// generic decoding
	var v interface{}
	errG := rlp.DecodeBytes(cp(), &v)
	var obG Sx
	if errG != nil {
		obG = erv(errG)
	} else {
		obG = okv(treeOf(v))
		re, err := rlp.EncodeToBytes(v)
		if err != nil || !bytes.Equal(re, b) {
			fails = append(fails, fmt.Sprintf("DecodeBytes accepted a string that re-encodes to %x", re))
		}
		if ref := refEnc(treeOf(v), 0, nil); !bytes.Equal(ref, b) {
			fails = append(fails, fmt.Sprintf("accepted string is not the canonical encoding %x of the decoded tree", ref))
		}
	}
	res.Tags = append(res.Tags, "gen-"+tagc(errG))

	// stream decoding of the first value, with the unread length
	rd := bytes.NewReader(cp())
	st := rlp.NewStream(rd, 0)
	var sv interface{}
	errS := st.Decode(&sv)
	var obS Sx
	if errS != nil {
		obS = erv(errS)
	} else {
		obS = okv(treeOf(sv), I(int64(rd.Len())))
		used := b[:len(b)-rd.Len()]
		re, err := rlp.EncodeToBytes(sv)
		if err != nil || !bytes.Equal(re, used) {
			fails = append(fails, fmt.Sprintf("Stream.Decode consumed %x but the value re-encodes to %x", used, re))
		}
		if (errG == nil) != (rd.Len() == 0) {
			fails = append(fails, "DecodeBytes and Stream.Decode disagree on acceptance")
		}
	}
	if errS != nil && errG == nil {
		fails = append(fails, "DecodeBytes accepted what Stream.Decode rejected")
	}
	res.Tags = append(res.Tags, "str-"+tagc(errS))

	// raw splitters
	k, content, rest, errSp := rlp.Split(cp())
	var obSp Sx
	if errSp != nil {
		obSp = erv(errSp)
	} else {
		obSp = okv(I(int64(k)), B(content), I(int64(len(rest))))
	}
	res.Tags = append(res.Tags, "split-"+tagc(errSp))
	// ... agree with the stream on kind / content / rest and on accept / reject
	var obSSp Sx
	{
		rd2 := bytes.NewReader(cp())
		s2 := rlp.NewStream(rd2, 0)
		sk, _, err := s2.Kind()
		var sc []byte
		if err == nil {
			if sk == rlp.List {
				var raw []byte
				raw, err = s2.Raw()
				if err == nil {
					_, sc, _, err = rlp.Split(raw)
				}
			} else {
				sc, err = s2.Bytes()
			}
		}
		if err != nil {
			obSSp = erv(err)
		} else {
			obSSp = okv(I(int64(sk)), B(sc), I(int64(rd2.Len())))
		}
		if (err == nil) != (errSp == nil) {
			fails = append(fails, fmt.Sprintf("Split err=%v but stream Kind/Bytes err=%v", errSp, err))
		} else if err == nil {
			if sk != k || !bytes.Equal(sc, content) || rd2.Len() != len(rest) {
				fails = append(fails, "Split and stream disagree on kind/content/rest")
			}
		}
	}
	ss, rs, errSS := rlp.SplitString(cp())
	obSS := erv(errSS)
	if errSS == nil {
		obSS = okv(B(ss), I(int64(len(rs))))
	}
	sl, rl, errSL := rlp.SplitList(cp())
	obSL := erv(errSL)
	if errSL == nil {
		obSL = okv(B(sl), I(int64(len(rl))))
	}
	if errSp == nil && (errSS == nil) == (errSL == nil) {
		fails = append(fails, "SplitString and SplitList do not partition the accepted values")
	}
	x, rx, errU := rlp.SplitUint64(cp())
	obU := erv(errU)
	if errU == nil {
		obU = okv(U(x), I(int64(len(rx))))
		if re := rlp.AppendUint64(nil, x); !bytes.Equal(re, b[:len(b)-len(rx)]) {
			fails = append(fails, fmt.Sprintf("SplitUint64 accepted a non-canonical integer (re-encodes to %x)", re))
		}
	}
	res.Tags = append(res.Tags, "u64-"+tagc(errU))
	{ // SplitUint64 vs Stream.Uint64
		rd3 := bytes.NewReader(cp())
		s3 := rlp.NewStream(rd3, 0)
		sx, err := s3.Uint64()
		if (err == nil) != (errU == nil) || (err == nil && (sx != x || rd3.Len() != len(rx))) {
			fails = append(fails, fmt.Sprintf("SplitUint64 (%d,%v) and Stream.Uint64 (%d,%v) disagree", x, errU, sx, err))
		}
	}
	cnt, errC := rlp.CountValues(cp())
	var obC Sx
	if errC != nil {
		obC = L(I(1), I(class(errC)), I(int64(cnt)))
	} else {
		obC = okv(I(int64(cnt)))
	}
	{ // CountValues vs a stream loop over top-level values
		rd4 := bytes.NewReader(cp())
		s4 := rlp.NewStream(rd4, 0)
		m := 0
		var err error
		for {
			var kk rlp.Kind
			kk, _, err = s4.Kind()
			if err != nil {
				break
			}
			if kk == rlp.List {
				_, err = s4.Raw()
			} else {
				_, err = s4.Bytes()
			}
			if err != nil {
				break
			}
			m++
		}
		if err == io.EOF {
			err = nil
		}
		if (err == nil) != (errC == nil) || (err == nil && m != cnt) {
			fails = append(fails, fmt.Sprintf("CountValues (%d,%v) and the stream loop (%d,%v) disagree", cnt, errC, m, err))
		}
	}

	// typed decoding
	var u8 uint8
	var u16 uint16
	var u32 uint32
	var u64 uint64
	var bi *big.Int
	var u256v uint256.Int
	var bo bool
	var bs []byte
	var str string
	ob8, e8 := decodeInto(cp(), &u8, func() Sx { return U(uint64(u8)) })
	ob16, e16 := decodeInto(cp(), &u16, func() Sx { return U(uint64(u16)) })
	ob32, e32 := decodeInto(cp(), &u32, func() Sx { return U(uint64(u32)) })
	ob64, e64 := decodeInto(cp(), &u64, func() Sx { return U(u64) })
	obBig, eBig := decodeInto(cp(), &bi, func() Sx { return Big(bi) })
	ob256, e256 := decodeInto(cp(), &u256v, func() Sx { return Big(u256v.ToBig()) })
	obBool, eBool := decodeInto(cp(), &bo, func() Sx { return Bool(bo) })
	obBs, eBs := decodeInto(cp(), &bs, func() Sx { return B(bs) })
	arr := reflect.New(reflect.ArrayOf(n, reflect.TypeOf(byte(0))))
	obArr, eArr := decodeInto(cp(), arr.Interface(), func() Sx { return B(arr.Elem().Slice(0, n).Bytes()) })
	eStr := rlp.DecodeBytes(cp(), &str)
	res.Tags = append(res.Tags, "big-"+tagc(eBig), "u8-"+tagc(e8), "bytes-"+tagc(eBs), "arr-"+tagc(eArr))

	// typed canonicity oracle: accepted => re-encodes to the input
	reenc := func(name string, err error, val interface{}) {
		if err != nil {
			return
		}
		re, e := rlp.EncodeToBytes(val)
		if e != nil || !bytes.Equal(re, b) {
			fails = append(fails, fmt.Sprintf("%s accepted a string that re-encodes to %x", name, re))
		}
	}
	reenc("uint8", e8, u8)
	reenc("uint16", e16, u16)
	reenc("uint32", e32, u32)
	reenc("uint64", e64, u64)
	reenc("big.Int", eBig, bi)
	reenc("uint256", e256, &u256v)
	reenc("bool", eBool, bo)
	reenc("[]byte", eBs, bs)
	reenc("string", eStr, str)
	if eArr == nil {
		reenc("[n]byte", nil, arr.Elem().Interface())
	}
	// widths are nested: a narrower uint accepts => the wider accepts the same value
	if e8 == nil && (e16 != nil || uint16(u8) != u16) || e16 == nil && (e32 != nil || uint32(u16) != u32) ||
		e32 == nil && (e64 != nil || uint64(u32) != u64) || e64 == nil && (e256 != nil || !u256v.IsUint64() || u256v.Uint64() != u64) ||
		e256 == nil && (eBig != nil || bi.Cmp(u256v.ToBig()) != 0) {
		fails = append(fails, "integer kinds of different widths disagree on a value they both accept")
	}
	if (eBs == nil) != (eStr == nil) || (eBs == nil && string(bs) != str) {
		fails = append(fails, "[]byte and string decoding disagree")
	}
	if (e64 == nil) != (errU == nil && len(rx) == 0) {
		fails = append(fails, "DecodeBytes(uint64) and SplitUint64 disagree on acceptance")
	}

	res.Obs = L(obG, obS, obSp, obSSp, obSS, obSL, obU, obC, ob8, ob16, ob32, ob64, obBig, ob256, obBool, obBs, obArr)
	if len(fails) > 0 {
		res.Oracle = strings.Join(fails, "; ")
	}
	res.NonTrivial = len(b) >= 2
	lb := len(b)
	switch {
	case lb > 300:
		lb = 300
	case lb > 57:
		lb = 58
	case lb > 9:
		lb = 10
	}
	res.Tags = append(res.Tags, fmt.Sprintf("len%d", lb))
	return res
}

func run(c Sx) Result {
	l := AsList(c)
	switch AsInt(l[0]) {
	case 0:
		return run0(AsBytes(l[1]), AsInt(l[2]))
	case 1: // encode a tree
		t := l[1]
		enc, err := rlp.EncodeToBytes(valOf(t))
		if err != nil {
			return Result{Obs: L(), Oracle: "EncodeToBytes failed: " + err.Error()}
		}
		res := Result{Obs: B(enc), Tags: []string{"enc-tree"}, NonTrivial: nodes(t) >= 2 || len(enc) >= 3}
		var fails []string
		if ref := refEnc(t, 0, nil); !bytes.Equal(ref, enc) {
			fails = append(fails, fmt.Sprintf("EncodeToBytes %x differs from the canonical encoding %x", enc, ref))
		}
		var back interface{}
		if err := rlp.DecodeBytes(enc, &back); err != nil {
			fails = append(fails, "decoding the encoding failed: "+err.Error())
		} else if String(treeOf(back)) != String(t) {
			fails = append(fails, "decode(encode(x)) != x")
		}
		// with trailing bytes the stream returns the value and leaves the rest
		rd := bytes.NewReader(append(append([]byte{}, enc...), 0xC1, 0x80, 0x05))
		var sv interface{}
		if err := rlp.NewStream(rd, 0).Decode(&sv); err != nil || rd.Len() != 3 || String(treeOf(sv)) != String(t) {
			fails = append(fails, "stream decode of encoding ++ rest did not return (x, rest)")
		}
		if len(enc) >= 56 {
			res.Tags = append(res.Tags, "enc-long")
		}
		if len(fails) > 0 {
			res.Oracle = strings.Join(fails, "; ")
		}
		return res
	case 2: // integers
		i := AsBig(l[1])
		obs := SL{}
		var fails []string
		eb, err := rlp.EncodeToBytes(i)
		if err != nil {
			return Result{Obs: L(), Oracle: "EncodeToBytes(big) failed"}
		}
		obs = append(obs, B(eb))
		var back *big.Int
		if err := rlp.DecodeBytes(eb, &back); err != nil || back.Cmp(i) != 0 {
			fails = append(fails, "big.Int does not round-trip")
		}
		if i.BitLen() <= 256 {
			var u uint256.Int
			u.SetFromBig(i)
			e2, _ := rlp.EncodeToBytes(&u)
			obs = append(obs, B(e2))
			var ub uint256.Int
			if err := rlp.DecodeBytes(e2, &ub); err != nil || !ub.Eq(&u) {
				fails = append(fails, "uint256 does not round-trip")
			}
			if !bytes.Equal(e2, eb) {
				fails = append(fails, "uint256 and big.Int encodings differ")
			}
		}
		if i.BitLen() <= 64 {
			e3, _ := rlp.EncodeToBytes(i.Uint64())
			e4 := rlp.AppendUint64(nil, i.Uint64())
			obs = append(obs, B(e3), B(e4))
			var ub uint64
			if err := rlp.DecodeBytes(e3, &ub); err != nil || ub != i.Uint64() {
				fails = append(fails, "uint64 does not round-trip")
			}
			x, rest, err := rlp.SplitUint64(e4)
			if err != nil || x != i.Uint64() || len(rest) != 0 {
				fails = append(fails, "SplitUint64(AppendUint64(x)) != x")
			}
			if !bytes.Equal(e3, eb) || !bytes.Equal(e4, eb) {
				fails = append(fails, "uint64 / AppendUint64 / big.Int encodings differ")
			}
			if rlp.IntSize(i.Uint64()) != len(e3) {
				fails = append(fails, "IntSize disagrees with the encoding length")
			}
		}
		res := Result{Obs: obs, Tags: []string{fmt.Sprintf("enc-int%d", min((i.BitLen()+7)/8, 33))}, NonTrivial: i.BitLen() > 7}
		if len(fails) > 0 {
			res.Oracle = strings.Join(fails, "; ")
		}
		return res
	case 3: // byte strings
		b := AsBytes(l[1])
		e1, _ := rlp.EncodeToBytes(b)
		e2, _ := rlp.EncodeToBytes(string(b))
		res := Result{Obs: L(B(e1)), Tags: []string{"enc-bytes"}, NonTrivial: len(b) >= 1}
		var back []byte
		if err := rlp.DecodeBytes(e1, &back); err != nil || !bytes.Equal(back, b) {
			res.Oracle = "[]byte does not round-trip"
		}
		if !bytes.Equal(e1, e2) || uint64(len(e1)) != rlp.BytesSize(b) || uint64(len(e1)) != rlp.StringSize(string(b)) {
			res.Oracle += " string/[]byte encodings or sizes differ"
		}
		return res
	case 4: // bool
		v := AsBool(l[1])
		e1, _ := rlp.EncodeToBytes(v)
		res := Result{Obs: L(B(e1)), Tags: []string{"enc-bool"}, NonTrivial: true}
		var back bool
		if err := rlp.DecodeBytes(e1, &back); err != nil || back != v {
			res.Oracle = "bool does not round-trip"
		}
		return res
	case 5: // typed struct schema
		o := outerOf(l[1:])
		enc, err := rlp.EncodeToBytes(&o)
		if err != nil {
			return Result{Obs: L(), Oracle: "EncodeToBytes(struct) failed: " + err.Error()}
		}
		res := Result{Obs: B(enc), Tags: []string{"enc-struct"}, NonTrivial: true}
		var back outer
		if err := rlp.DecodeBytes(enc, &back); err != nil {
			res.Oracle = "struct encoding does not decode: " + err.Error()
		} else if dumpOuter(&back) != dumpOuter(&o) {
			res.Oracle = "struct does not round-trip: " + dumpOuter(&back)
		}
		return res
	case 6: // typed canonicity on (mutated) struct encodings; implementation-side oracle only
		b := AsBytes(l[1])
		var back outer
		err := rlp.DecodeBytes(b, &back)
		res := Result{Obs: L(), Tags: []string{"struct-" + tagc(err)}, NonTrivial: len(b) >= 2}
		if err == nil {
			re, e := rlp.EncodeToBytes(&back)
			if e != nil || !bytes.Equal(re, b) {
				res.Oracle = fmt.Sprintf("typed decoding accepted a string that re-encodes to %x", re)
			}
		}
		return res
	}
	panic("hxlib: unknown case kind")
}

// ---------- generators ----------

var edgeLens = []int{0, 1, 1, 2, 54, 55, 56, 57, 255, 256, 257}

func genStr(r *Rng, small bool) []byte {
	var n int
	switch {
	case small || r.Chance(6, 10):
		n = r.Intn(5)
	case r.Chance(1, 2):
		n = edgeLens[r.Intn(len(edgeLens))]
	default:
		n = r.Intn(301)
	}
	b := r.Bytes(n)
	if n >= 1 && r.Chance(1, 3) { // bias towards the single-byte boundary and zeros
		b[0] = []byte{0, 1, 0x7f, 0x80, 0x81, 0xb7, 0xb8, 0xc0, 0xf7, 0xf8, 0xff}[r.Intn(11)]
	}
	return b
}

func genTree(r *Rng, depth int, small bool) Sx {
	if depth <= 0 || r.Chance(4, 10) {
		return B(genStr(r, small))
	}
	var n int
	switch r.Intn(8) {
	case 0:
		n = 0
	case 1:
		n = 1
	case 2: // payload around the 55/56 boundary
		n = 53 + r.Intn(5)
		out := SL{}
		for i := 0; i < n; i++ {
			out = append(out, B([]byte{byte(r.Intn(0x80))}))
		}
		return out
	default:
		n = r.Intn(5)
	}
	out := SL{}
	for i := 0; i < n; i++ {
		out = append(out, genTree(r, depth-1, small || depth < 3))
	}
	return out
}

var intEdges = []string{"0", "1", "7f", "80", "ff", "100", "ffff", "10000", "ffffffff", "100000000",
	"ffffffffffffff", "100000000000000", "ffffffffffffffff", "10000000000000000",
	"ffffffffffffffffffffffffffffffffffffffffffffffffffffffffffffffff",
	"10000000000000000000000000000000000000000000000000000000000000000"}

func genInt(r *Rng) *big.Int {
	if r.Chance(1, 3) {
		v, _ := new(big.Int).SetString(intEdges[r.Intn(len(intEdges))], 16)
		return v
	}
	n := r.Intn(10)
	if r.Chance(1, 4) {
		n = r.Intn(41)
	}
	return new(big.Int).SetBytes(r.Bytes(n))
}

// mutate a valid encoding (headers at hs) into a probably-malformed one
func mutate(r *Rng, enc []byte, hs []hdr) []byte {
	b := append([]byte{}, enc...)
	if len(b) == 0 {
		return []byte{byte(r.U64())}
	}
	h := hs[r.Intn(len(hs))]
	switch r.Intn(12) {
	case 0: // single-byte mutation anywhere
		i := r.Intn(len(b))
		b[i] = byte(r.U64())
	case 1: // +-1 on a random byte
		i := r.Intn(len(b))
		if r.Bool() {
			b[i]++
		} else {
			b[i]--
		}
	case 2: // inflate / deflate a length field
		i := h.off
		if h.lenlen > 0 && r.Bool() {
			i = h.off + h.lenlen // least significant size byte
		}
		d := byte(1 + r.Intn(3))
		if r.Bool() {
			b[i] += d
		} else {
			b[i] -= d
		}
	case 3: // leading zero in a long-form size
		if h.lenlen > 0 && h.lenlen < 8 {
			b[h.off]++
			b = append(b[:h.off+1], append([]byte{0}, b[h.off+1:]...)...)
		} else { // leading zero in a string (non-canonical as an integer)
			b = append([]byte{byte(0x80 + min(len(b)+1, 55)), 0}, b...)
		}
	case 4: // truncation
		b = b[:r.Intn(len(b))]
	case 5: // 0x81 wrapping of a single byte
		if h.lenlen == -1 {
			b = append(b[:h.off], append([]byte{0x81}, b[h.off:]...)...)
		} else {
			b = []byte{0x81, byte(r.Intn(0x80))}
		}
	case 6: // non-minimal long form for a short header
		if h.lenlen == 0 {
			tag := b[h.off]
			var nt, sz byte
			if h.list {
				nt, sz = 0xF8, tag-0xC0
			} else {
				nt, sz = 0xB8, tag-0x80
			}
			b[h.off] = nt
			b = append(b[:h.off+1], append([]byte{sz}, b[h.off+1:]...)...)
		} else {
			b = append([]byte{0xB8, byte(r.Intn(56))}, b...)
		}
	case 7: // trailing data
		b = append(b, r.Bytes(1+r.Intn(3))...)
	case 8: // insert a byte (pushes an element over its list's end)
		i := r.Intn(len(b) + 1)
		b = append(b[:i], append([]byte{byte(r.U64())}, b[i:]...)...)
	case 9: // delete a byte
		i := r.Intn(len(b))
		b = append(b[:i], b[i+1:]...)
	case 10: // wrap in a list whose size is off by a little, with trailing input
		n := len(b) + r.Intn(3) - 1
		if n < 0 {
			n = 0
		}
		b = append(refHead(0xC0, 0xF7, n), b...)
		b = append(b, r.Bytes(r.Intn(3))...)
	default: // flip list <-> string kind of a header
		if h.lenlen >= 0 {
			b[h.off] ^= 0x40
		} else {
			b[h.off] |= 0x80
		}
	}
	return b
}

func arrLen(r *Rng, b []byte) int {
	if r.Chance(2, 3) {
		if _, c, _, err := rlp.Split(b); err == nil && len(c) <= 64 {
			return len(c)
		}
	}
	return r.Intn(6)
}

func emit0(r *Rng, emit func(Sx), b []byte) {
	emit(L(I(0), B(b), I(int64(arrLen(r, b)))))
}

func genOuter(r *Rng) Sx {
	z := SL{}
	for i, n := 0, r.Intn(4); i < n; i++ {
		z = append(z, L(U(uint64(uint16(r.U64()>>uint(r.Intn(16))))), B(genStr(r, true)), Big(genInt(r))))
	}
	bl := SL{}
	for i, n := 0, r.Intn(4); i < n; i++ {
		bl = append(bl, B(genStr(r, r.Chance(9, 10))))
	}
	u := genInt(r)
	if u.BitLen() > 256 {
		u.Rsh(u, uint(u.BitLen()-256))
	}
	x := genInt(r)
	if x.BitLen() > 64 {
		x.Rsh(x, uint(x.BitLen()-64))
	}
	return L(I(5), Big(x), B(r.Bytes(4)), z, B(genStr(r, r.Chance(9, 10))), Bool(r.Bool()), Big(u), bl)
}

func gen(r *Rng, tier string, emit func(Sx)) {
	// exhaustive: every 1-byte input, and every 2-byte input whose first byte is a
	// header boundary (quick) / every 2-byte input (thorough)
	for a := 0; a < 256; a++ {
		emit(L(I(0), B([]byte{byte(a)}), I(1)))
	}
	firsts := []int{0x00, 0x7f, 0x80, 0x81, 0x82, 0xb7, 0xb8, 0xb9, 0xbf, 0xc0, 0xc1, 0xc2, 0xf7, 0xf8, 0xf9, 0xff}
	if tier == "thorough" {
		firsts = firsts[:0]
		for a := 0; a < 256; a++ {
			firsts = append(firsts, a)
		}
	}
	for _, a := range firsts {
		for c := 0; c < 256; c++ {
			emit(L(I(0), B([]byte{byte(a), byte(c)}), I(1)))
		}
	}
	emit(L(I(0), B(nil), I(0)))
	emit(L(I(4), I(0)))
	emit(L(I(4), I(1)))
	for _, e := range intEdges {
		v, _ := new(big.Int).SetString(e, 16)
		emit(L(I(2), Big(v)))
		emit0(r, emit, refEnc(B(v.Bytes()), 0, nil))
	}
	n := 2500
	if tier == "thorough" {
		n = 60000
	}
	for i := 0; i < n; i++ {
		switch r.Intn(10) {
		case 0, 1: // a valid tree: encoder case + decoders on its encoding (sometimes with a tail)
			t := genTree(r, 1+r.Intn(5), false)
			emit(L(I(1), t))
			enc := refEnc(t, 0, nil)
			if r.Chance(1, 4) {
				enc = append(enc, refEnc(genTree(r, 1, true), 0, nil)...)
			}
			emit0(r, emit, enc)
		case 2, 3, 4, 5: // malformed stream: 1-3 mutations of a valid encoding
			t := genTree(r, 1+r.Intn(4), r.Chance(2, 3))
			var hs []hdr
			enc := refEnc(t, 0, &hs)
			b := mutate(r, enc, hs)
			for r.Chance(1, 4) {
				b = mutate(r, b, []hdr{{0, 0, false}})
			}
			emit0(r, emit, b)
		case 6: // integers: encoder case + decoders on canonical and malformed integer strings
			v := genInt(r)
			emit(L(I(2), Big(v)))
			body := v.Bytes()
			switch r.Intn(6) {
			case 0:
				body = append([]byte{0}, body...) // leading zero
			case 1:
				body = append(body, byte(r.U64())) // one byte wider
			}
			enc := refEnc(B(body), 0, nil)
			if len(body) == 1 && body[0] < 0x80 && r.Chance(1, 3) {
				enc = []byte{0x81, body[0]}
			}
			if r.Chance(1, 8) {
				enc = append(enc, byte(r.U64()))
			}
			emit0(r, emit, enc)
		case 7: // byte strings
			b := genStr(r, false)
			emit(L(I(3), B(b)))
			emit0(r, emit, refEnc(B(b), 0, nil))
		case 8: // typed struct + mutations of its encoding
			c := genOuter(r)
			emit(c)
			o := outerOf(AsList(c)[1:])
			enc, err := rlp.EncodeToBytes(&o)
			if err == nil {
				emit(L(I(6), B(enc)))
				for k := 0; k < 3; k++ {
					emit(L(I(6), B(mutate(r, enc, []hdr{{0, 0, true}}))))
				}
			}
		default: // arbitrary short byte strings
			emit0(r, emit, r.Bytes(r.Intn(12)))
		}
	}
}

func main() {
	Main(Family{
		ID: "C01",
		Rule: "all 1-byte inputs; all 2-byte inputs with a header-boundary first byte (quick) / all 2-byte inputs (thorough); " +
			"random item trees (depth <= 5, strings 0-300 bytes biased to 0,1,55,56,255,256, list payloads around 55/56) encoded by an independent reference encoder, " +
			"optionally followed by a second value; malformed stream = 1-3 mutations of a valid encoding aimed at recorded header offsets " +
			"(byte mutation, +-1, length inflate/deflate, leading zero in a size, truncation, 0x81 wrapping of a single byte, non-minimal long form, trailing data, " +
			"insert/delete a byte, wrapping list with off-by-one size plus trailing input, kind flip); integers around every width boundary up to 2^256 with leading-zero / widened / 0x81 forms; " +
			"byte strings; a fixed typed struct schema (uint64,[4]byte,[]struct{uint16,[]byte,*big.Int},string,bool,uint256,[][]byte) with mutations of its encoding (oracle only). " +
			"Non-trivial: decoder cases with an input of >= 2 bytes; encoder cases with >= 2 nodes or >= 3 output bytes / integers >= 0x80 / non-empty strings; distinct = distinct case line.",
		Gen: gen,
		Run: run,
	})
}
