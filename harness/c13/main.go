// Family c13: core/state StateDB (journal, state objects, access list, transient
// storage, Finalise) vs coq/State/Journal.v, with a naive map-copy reference
// implementation (type ref below) as the direct property oracle.
//
// case = ( db ops ), see coq/Run/C13.v for the encoding.
package main

import (
	"fmt"
	"math/big"
	"sort"

	"github.com/ethereum/go-ethereum/common"
	"github.com/ethereum/go-ethereum/core/state"
	"github.com/ethereum/go-ethereum/core/tracing"
	"github.com/ethereum/go-ethereum/core/types"
	"github.com/ethereum/go-ethereum/crypto"
	"github.com/ethereum/go-ethereum/params"
	"github.com/holiman/uint256"
	. "gethverif/harness/hxlib"
)

const (
	opCreateAccount = iota
	opCreateContract
	opAddBalance
	opSubBalance
	opSetBalance
	opSetNonce
	opSetCode
	opSetState
	opSetTransient
	opSelfDestruct
	opSelfDestruct6780
	opAddAddress
	opAddSlot
	opAddRefund
	opSubRefund
	opAddLog
	opSnapshot
	opRevert
	opFinalise
	opTxStart
	opIntermediateRoot // (20 rules): Finalise + root; root compared with the reference root
	opPeek             // (21 a k): one read (GetState, GetCommittedState, Exist); fills read caches only
)

var opNames = []string{"createAccount", "createContract", "addBalance", "subBalance", "setBalance", "setNonce",
	"setCode", "setState", "setTransient", "selfDestruct", "selfDestruct6780", "addAddress", "addSlot",
	"addRefund", "subRefund", "addLog", "snapshot", "revert", "finalise", "txStart", "intermediateRoot", "peek"}

var (
	w256   = new(big.Int).Lsh(big.NewInt(1), 256)
	w64    = new(big.Int).Lsh(big.NewInt(1), 64)
	ripemd = 3
)

func addrOf(a int) common.Address { return common.BytesToAddress([]byte{byte(a)}) }
func hashOf(k int) common.Hash    { return common.BytesToHash([]byte{byte(k)}) }
func wordOf(v *big.Int) common.Hash {
	return common.BigToHash(v)
}
func codeOf(c int) []byte {
	b := make([]byte, c)
	for i := range b {
		b[i] = byte(0xC0 + c)
	}
	return b
}

var codeHashID = map[common.Hash]int{}

func init() {
	for c := 0; c < 8; c++ {
		codeHashID[crypto.Keccak256Hash(codeOf(c))] = c + 1
	}
	codeHashID[common.Hash{}] = 0
}

func rulesOf(bits int) params.Rules {
	return params.Rules{IsEIP158: bits&1 != 0, IsAmsterdam: bits&2 != 0, IsEIP2929: bits&4 != 0, IsShanghai: bits&8 != 0,
		IsBerlin: bits&4 != 0, IsCancun: bits&8 != 0}
}

// ---------------------------------------------------------------------------
// decoded case

type dbAcct struct {
	addr  int
	nonce uint64
	bal   *big.Int
	code  int
	stor  [][2]*big.Int // slot, value
}

type alEntry struct {
	addr  int
	slots []int
}

type op struct {
	tag              int
	a, k             int
	v                *big.Int // value / amount / nonce / gas / id / data
	rules            int
	th, ti           int
	sender, coinbase int
	dst              int // -1 = none
	al               []alEntry
}

func decodeCase(c Sx) ([]dbAcct, []op, bool) {
	l := AsList(c)
	if len(l) != 2 && len(l) != 3 {
		panic("hxlib: case must be (db ops) or (db ops 1)")
	}
	quiet := false
	if len(l) == 3 {
		if AsInt(l[2]) != 1 {
			panic("hxlib: bad mode")
		}
		quiet = true
	}
	var db []dbAcct
	for _, e := range AsList(l[0]) {
		f := AsList(e)
		if len(f) != 5 {
			panic("hxlib: bad db account")
		}
		d := dbAcct{addr: AsInt(f[0]), nonce: AsU64(f[1]), bal: AsBig(f[2]), code: AsInt(f[3])}
		for _, sv := range AsList(f[4]) {
			p := AsList(sv)
			if len(p) != 2 {
				panic("hxlib: bad slot")
			}
			d.stor = append(d.stor, [2]*big.Int{AsBig(p[0]), AsBig(p[1])})
		}
		db = append(db, d)
	}
	var ops []op
	for _, e := range AsList(l[1]) {
		f := AsList(e)
		if len(f) == 0 {
			panic("hxlib: empty op")
		}
		o := op{tag: AsInt(f[0]), dst: -1, v: new(big.Int)}
		need := func(n int) {
			if len(f) != n+1 {
				panic("hxlib: bad op arity")
			}
		}
		switch o.tag {
		case opCreateAccount, opCreateContract, opSelfDestruct, opSelfDestruct6780, opAddAddress:
			need(1)
			o.a = AsInt(f[1])
		case opAddBalance, opSubBalance, opSetBalance, opSetNonce, opSetCode, opAddLog:
			need(2)
			o.a, o.v = AsInt(f[1]), AsBig(f[2])
		case opSetState, opSetTransient:
			need(3)
			o.a, o.k, o.v = AsInt(f[1]), AsInt(f[2]), AsBig(f[3])
		case opAddSlot:
			need(2)
			o.a, o.k = AsInt(f[1]), AsInt(f[2])
		case opAddRefund, opSubRefund, opRevert:
			need(1)
			o.v = AsBig(f[1])
		case opSnapshot:
			need(0)
		case opFinalise, opIntermediateRoot:
			need(1)
			o.rules = AsInt(f[1])
		case opPeek:
			need(2)
			o.a, o.k = AsInt(f[1]), AsInt(f[2])
		case opTxStart:
			need(7)
			o.th, o.ti, o.rules, o.sender, o.coinbase = AsInt(f[1]), AsInt(f[2]), AsInt(f[3]), AsInt(f[4]), AsInt(f[5])
			d := AsList(f[6])
			if len(d) > 0 {
				o.dst = AsInt(d[0])
			}
			for _, e := range AsList(f[7]) {
				p := AsList(e)
				if len(p) != 2 {
					panic("hxlib: bad access list entry")
				}
				ae := alEntry{addr: AsInt(p[0])}
				for _, s := range AsList(p[1]) {
					ae.slots = append(ae.slots, AsInt(s))
				}
				o.al = append(o.al, ae)
			}
		default:
			panic("hxlib: unknown op tag")
		}
		if o.v.Sign() < 0 || o.a < 0 || o.a > 255 || o.k < 0 || o.k > 255 {
			panic("hxlib: negative or oversized argument")
		}
		ops = append(ops, o)
	}
	return db, ops, quiet
}

func encodeOp(o op) Sx {
	switch o.tag {
	case opCreateAccount, opCreateContract, opSelfDestruct, opSelfDestruct6780, opAddAddress:
		return L(I(int64(o.tag)), I(int64(o.a)))
	case opAddBalance, opSubBalance, opSetBalance, opSetNonce, opSetCode, opAddLog:
		return L(I(int64(o.tag)), I(int64(o.a)), Big(o.v))
	case opSetState, opSetTransient:
		return L(I(int64(o.tag)), I(int64(o.a)), I(int64(o.k)), Big(o.v))
	case opAddSlot:
		return L(I(int64(o.tag)), I(int64(o.a)), I(int64(o.k)))
	case opAddRefund, opSubRefund, opRevert:
		return L(I(int64(o.tag)), Big(o.v))
	case opSnapshot:
		return L(I(int64(o.tag)))
	case opFinalise, opIntermediateRoot:
		return L(I(int64(o.tag)), I(int64(o.rules)))
	case opPeek:
		return L(I(int64(o.tag)), I(int64(o.a)), I(int64(o.k)))
	case opTxStart:
		dst := SL{}
		if o.dst >= 0 {
			dst = SL{I(int64(o.dst))}
		}
		al := SL{}
		for _, e := range o.al {
			ks := SL{}
			for _, k := range e.slots {
				ks = append(ks, I(int64(k)))
			}
			al = append(al, L(I(int64(e.addr)), ks))
		}
		return L(I(int64(o.tag)), I(int64(o.th)), I(int64(o.ti)), I(int64(o.rules)), I(int64(o.sender)), I(int64(o.coinbase)), dst, al)
	}
	panic("hxlib: encodeOp")
}

// ---------------------------------------------------------------------------
// the naive reference implementation (the oracle): whole-state copies

type rAcct struct {
	nonce   uint64
	bal     *big.Int
	code    int
	stor    map[int]*big.Int
	cstor   map[int]*big.Int
	created bool
	sd      bool
}

func newRAcct() *rAcct {
	return &rAcct{bal: new(big.Int), stor: map[int]*big.Int{}, cstor: map[int]*big.Int{}}
}
func (x *rAcct) empty() bool { return x.nonce == 0 && x.bal.Sign() == 0 && x.code == 0 }
func (x *rAcct) copy() *rAcct {
	y := &rAcct{nonce: x.nonce, bal: new(big.Int).Set(x.bal), code: x.code, created: x.created, sd: x.sd,
		stor: map[int]*big.Int{}, cstor: map[int]*big.Int{}}
	for k, v := range x.stor {
		y.stor[k] = v
	}
	for k, v := range x.cstor {
		y.cstor[k] = v
	}
	return y
}

type rLog struct{ th, ti, idx, addr, data int }

type rCore struct {
	accts   map[int]*rAcct
	touched map[int]bool
	tstor   map[[2]int]*big.Int
	alA     map[int]bool
	alS     map[[2]int]bool
	refund  *big.Int
	logs    []rLog
}

func (c *rCore) copy() *rCore {
	d := &rCore{accts: map[int]*rAcct{}, touched: map[int]bool{}, tstor: map[[2]int]*big.Int{}, alA: map[int]bool{},
		alS: map[[2]int]bool{}, refund: new(big.Int).Set(c.refund), logs: append([]rLog{}, c.logs...)}
	for a, x := range c.accts {
		d.accts[a] = x.copy()
	}
	for a := range c.touched {
		d.touched[a] = true
	}
	for k, v := range c.tstor {
		d.tstor[k] = v
	}
	for a := range c.alA {
		d.alA[a] = true
	}
	for k := range c.alS {
		d.alS[k] = true
	}
	return d
}

type rSnap struct {
	id   int
	core *rCore
}

type ref struct {
	cur    *rCore
	stack  []rSnap
	next   int
	sticky bool
	th, ti int
}

func newRef(db []dbAcct) *ref {
	c := &rCore{accts: map[int]*rAcct{}, touched: map[int]bool{}, tstor: map[[2]int]*big.Int{}, alA: map[int]bool{},
		alS: map[[2]int]bool{}, refund: new(big.Int)}
	for _, d := range db {
		x := newRAcct()
		x.nonce, x.bal, x.code = d.nonce, new(big.Int).Set(d.bal), d.code
		for _, sv := range d.stor {
			if sv[1].Sign() != 0 {
				x.stor[int(sv[0].Int64())] = sv[1]
				x.cstor[int(sv[0].Int64())] = sv[1]
			}
		}
		c.accts[d.addr] = x
	}
	return &ref{cur: c}
}

func (r *ref) getOrNew(a int) *rAcct {
	x := r.cur.accts[a]
	if x == nil {
		x = newRAcct()
		r.cur.accts[a] = x
		r.cur.touched[a] = true
	}
	return x
}

func sval(m map[int]*big.Int, k int) *big.Int {
	if v, ok := m[k]; ok {
		return v
	}
	return new(big.Int)
}

// step returns 0 none / 1 panic / id+2
func (r *ref) step(o op) int {
	c := r.cur
	switch o.tag {
	case opCreateAccount:
		c.accts[o.a] = newRAcct()
		c.touched[o.a] = true
	case opCreateContract:
		x := c.accts[o.a]
		if x == nil {
			return 1
		}
		x.created = true
	case opAddBalance:
		x := r.getOrNew(o.a)
		if o.v.Sign() == 0 {
			if x.empty() {
				c.touched[o.a] = true
				if o.a == ripemd {
					r.sticky = true
				}
			}
		} else {
			x.bal = new(big.Int).Mod(new(big.Int).Add(x.bal, o.v), w256)
			c.touched[o.a] = true
		}
	case opSubBalance:
		x := r.getOrNew(o.a)
		if o.v.Sign() != 0 {
			x.bal = new(big.Int).Mod(new(big.Int).Sub(x.bal, o.v), w256)
			c.touched[o.a] = true
		}
	case opSetBalance:
		x := r.getOrNew(o.a)
		x.bal = new(big.Int).Set(o.v)
		c.touched[o.a] = true
	case opSetNonce:
		x := r.getOrNew(o.a)
		x.nonce = o.v.Uint64()
		c.touched[o.a] = true
	case opSetCode:
		x := r.getOrNew(o.a)
		x.code = int(o.v.Int64())
		c.touched[o.a] = true
	case opSetState:
		x := r.getOrNew(o.a)
		if sval(x.stor, o.k).Cmp(o.v) != 0 {
			x.stor[o.k] = new(big.Int).Set(o.v)
			c.touched[o.a] = true
		}
	case opSetTransient:
		key := [2]int{o.a, o.k}
		if o.v.Sign() == 0 {
			delete(c.tstor, key)
		} else {
			c.tstor[key] = new(big.Int).Set(o.v)
		}
	case opSelfDestruct:
		if x := c.accts[o.a]; x != nil && !x.sd {
			x.sd = true
			c.touched[o.a] = true
		}
	case opSelfDestruct6780:
		if x := c.accts[o.a]; x != nil && x.created && !x.sd {
			x.sd = true
			c.touched[o.a] = true
		}
	case opAddAddress:
		c.alA[o.a] = true
	case opAddSlot:
		c.alA[o.a] = true
		c.alS[[2]int{o.a, o.k}] = true
	case opAddRefund:
		c.refund = new(big.Int).Mod(new(big.Int).Add(c.refund, o.v), w64)
	case opSubRefund:
		if o.v.Cmp(c.refund) > 0 {
			return 1
		}
		c.refund = new(big.Int).Sub(c.refund, o.v)
	case opAddLog:
		c.logs = append(c.logs, rLog{r.th, r.ti, len(c.logs), o.a, int(o.v.Int64())})
	case opSnapshot:
		id := r.next
		r.next++
		r.stack = append(r.stack, rSnap{id, c.copy()})
		return id + 2
	case opRevert:
		for i := len(r.stack) - 1; i >= 0; i-- {
			if o.v.IsInt64() && int64(r.stack[i].id) == o.v.Int64() {
				r.cur = r.stack[i].core
				r.stack = r.stack[:i]
				return 0
			}
		}
		return 1
	case opFinalise, opIntermediateRoot:
		is158, isAms := o.rules&1 != 0, o.rules&2 != 0
		for a, x := range c.accts {
			touched := c.touched[a] || (r.sticky && a == ripemd)
			switch {
			case x.sd:
				if isAms && x.bal.Sign() != 0 {
					y := newRAcct()
					y.bal = x.bal
					c.accts[a] = y
				} else {
					delete(c.accts, a)
				}
			case is158 && touched && x.empty():
				delete(c.accts, a)
			default:
				x.cstor = map[int]*big.Int{}
				for k, v := range x.stor {
					x.cstor[k] = v
				}
				x.created = false
			}
		}
		c.touched = map[int]bool{}
		c.refund = new(big.Int)
		r.stack = nil
		r.next = 0
		r.sticky = false
	case opTxStart:
		r.th, r.ti = o.th, o.ti
		if o.rules&4 != 0 {
			c.alA = map[int]bool{o.sender: true}
			c.alS = map[[2]int]bool{}
			if o.dst >= 0 {
				c.alA[o.dst] = true
			}
			for _, e := range o.al {
				c.alA[e.addr] = true
				for _, k := range e.slots {
					c.alS[[2]int{e.addr, k}] = true
				}
			}
			if o.rules&8 != 0 {
				c.alA[o.coinbase] = true
			}
		}
		c.tstor = map[[2]int]*big.Int{}
	}
	return 0
}

func b2i(b bool) int64 {
	if b {
		return 1
	}
	return 0
}

var dumpAddrs = []int{1, 2, 3, 4}
var dumpSlots = []int{0, 1, 2, 3}
var dumpHashes = []int{1, 2, 3, 4, 5}

func (r *ref) dump() Sx {
	c := r.cur
	out := SL{}
	for _, a := range dumpAddrs {
		x := c.accts[a]
		if x == nil {
			out = append(out, I(0), I(1), I(0), I(0), I(0), I(0), I(0), I(0))
		} else {
			out = append(out, I(1), I(b2i(x.empty())), Big(x.bal), U(x.nonce), I(int64(x.code)), I(int64(x.code+1)),
				I(b2i(x.sd)), I(b2i(x.created)))
		}
		out = append(out, I(b2i(c.alA[a])))
		for _, k := range dumpSlots {
			st, cst := new(big.Int), new(big.Int)
			if x != nil {
				st, cst = sval(x.stor, k), sval(x.cstor, k)
			}
			ts := new(big.Int)
			if v, ok := c.tstor[[2]int{a, k}]; ok {
				ts = v
			}
			out = append(out, Big(st), Big(cst), Big(ts), I(b2i(c.alS[[2]int{a, k}])))
		}
	}
	out = append(out, Big(c.refund))
	for _, th := range dumpHashes {
		ls := SL{}
		for _, l := range c.logs {
			if l.th == th {
				ls = append(ls, L(I(int64(l.ti)), I(int64(l.idx)), I(int64(l.addr)), I(int64(l.data))))
			}
		}
		out = append(out, ls)
	}
	return out
}

// guard bookkeeping in reference terms (see Journal.v op_ok): the histories on which
// the reference is the specification
type guardState struct {
	originOK  map[int]bool // committed account absent or blank (nonce 0, no code, no storage), or deleted in this block
	unguarded string
}

func newGuard(db []dbAcct) *guardState {
	g := &guardState{originOK: map[int]bool{}}
	for a := 0; a < 256; a++ {
		g.originOK[a] = true
	}
	for _, d := range db {
		hasStor := false
		for _, sv := range d.stor {
			if sv[1].Sign() != 0 {
				hasStor = true
			}
		}
		g.originOK[d.addr] = d.nonce == 0 && d.code == 0 && !hasStor
	}
	return g
}

// before executes the guard check of op o on reference state r (before the op)
func (g *guardState) before(r *ref, o op) {
	if g.unguarded != "" {
		return
	}
	switch o.tag {
	case opCreateAccount:
		if r.cur.accts[o.a] != nil {
			g.unguarded = "createAccount-over-existing"
		}
	case opTxStart:
		if len(r.stack) != 0 || len(r.cur.touched) != 0 {
			g.unguarded = "txStart-mid-tx"
		}
	case opFinalise, opIntermediateRoot:
		for a, x := range r.cur.accts {
			touched := r.cur.touched[a] || (r.sticky && a == ripemd)
			if x.created && !touched {
				g.unguarded = "newContract-untouched-at-finalise"
			}
			if o.rules&2 != 0 && x.sd && x.bal.Sign() != 0 && !g.originOK[a] {
				g.unguarded = "amsterdam-selfdestruct-nonblank-origin"
			}
		}
	}
}

func (g *guardState) after(rBefore map[int]bool, r *ref, o op) {
	if o.tag == opFinalise || o.tag == opIntermediateRoot {
		for a := range rBefore {
			if r.cur.accts[a] == nil {
				g.originOK[a] = true
			}
		}
	}
}

// ---------------------------------------------------------------------------
// the implementation

func buildState(db []dbAcct) *state.StateDB {
	sdb := state.NewDatabaseForTesting()
	st, err := state.New(types.EmptyRootHash, sdb)
	if err != nil {
		panic(err)
	}
	if len(db) == 0 {
		return st
	}
	for _, d := range db {
		a := addrOf(d.addr)
		st.CreateAccount(a)
		st.SetNonce(a, d.nonce, tracing.NonceChangeUnspecified)
		st.SetBalance(a, uint256.MustFromBig(d.bal), tracing.BalanceChangeUnspecified)
		if d.code != 0 {
			st.SetCode(a, codeOf(d.code), tracing.CodeChangeUnspecified)
		}
		for _, sv := range d.stor {
			st.SetState(a, hashOf(int(sv[0].Int64())), wordOf(sv[1]))
		}
	}
	root, err := st.Commit(params.Rules{}, 0)
	if err != nil {
		panic(err)
	}
	st2, err := state.New(root, sdb)
	if err != nil {
		panic(err)
	}
	return st2
}

// refRoot is the oracle for IntermediateRoot: the root of a from-scratch build of the
// reference model's accounts (nonce, balance, code, non-zero storage) in a fresh database,
// one transaction from the empty state, no deletions (Rules{}: empty accounts are kept).
func refRoot(r *ref) common.Hash {
	st, err := state.New(types.EmptyRootHash, state.NewDatabaseForTesting())
	if err != nil {
		panic(err)
	}
	addrs := make([]int, 0, len(r.cur.accts))
	for a := range r.cur.accts {
		addrs = append(addrs, a)
	}
	sort.Ints(addrs)
	for _, ai := range addrs {
		x := r.cur.accts[ai]
		a := addrOf(ai)
		st.CreateAccount(a)
		st.SetNonce(a, x.nonce, tracing.NonceChangeUnspecified)
		st.SetBalance(a, uint256.MustFromBig(x.bal), tracing.BalanceChangeUnspecified)
		if x.code != 0 {
			st.SetCode(a, codeOf(x.code), tracing.CodeChangeUnspecified)
		}
		ks := make([]int, 0, len(x.stor))
		for k := range x.stor {
			ks = append(ks, k)
		}
		sort.Ints(ks)
		for _, k := range ks {
			if x.stor[k].Sign() != 0 {
				st.SetState(a, hashOf(k), wordOf(x.stor[k]))
			}
		}
	}
	return st.IntermediateRoot(params.Rules{})
}

func catchPanic(f func()) (panicked bool) {
	defer func() {
		if recover() != nil {
			panicked = true
		}
	}()
	f()
	return false
}

// applyOp runs one op on the real StateDB: 0 none / 1 panic / id+2
func applyOp(st *state.StateDB, o op) int {
	a := addrOf(o.a)
	switch o.tag {
	case opCreateAccount:
		st.CreateAccount(a)
	case opCreateContract:
		if catchPanic(func() { st.CreateContract(a) }) { // nil dereference when the account does not exist
			return 1
		}
	case opAddBalance:
		st.AddBalance(a, uint256.MustFromBig(o.v), tracing.BalanceChangeUnspecified)
	case opSubBalance:
		st.SubBalance(a, uint256.MustFromBig(o.v), tracing.BalanceChangeUnspecified)
	case opSetBalance:
		st.SetBalance(a, uint256.MustFromBig(o.v), tracing.BalanceChangeUnspecified)
	case opSetNonce:
		st.SetNonce(a, o.v.Uint64(), tracing.NonceChangeUnspecified)
	case opSetCode:
		st.SetCode(a, codeOf(int(o.v.Int64())), tracing.CodeChangeUnspecified)
	case opSetState:
		st.SetState(a, hashOf(o.k), wordOf(o.v))
	case opSetTransient:
		st.SetTransientState(a, hashOf(o.k), wordOf(o.v))
	case opSelfDestruct:
		st.SelfDestruct(a)
	case opSelfDestruct6780: // the guard of vm.opSelfdestruct6780
		if st.IsNewContract(a) {
			st.SelfDestruct(a)
		}
	case opAddAddress:
		st.AddAddressToAccessList(a)
	case opAddSlot:
		st.AddSlotToAccessList(a, hashOf(o.k))
	case opAddRefund:
		st.AddRefund(o.v.Uint64())
	case opSubRefund:
		if catchPanic(func() { st.SubRefund(o.v.Uint64()) }) {
			return 1
		}
	case opAddLog:
		st.AddLog(&types.Log{Address: a, Data: []byte{byte(o.v.Int64())}})
	case opSnapshot:
		return st.Snapshot() + 2
	case opRevert:
		id := int(^uint(0) >> 1)
		if o.v.IsInt64() {
			id = int(o.v.Int64())
		}
		if catchPanic(func() { st.RevertToSnapshot(id) }) {
			return 1
		}
	case opFinalise:
		st.Finalise(rulesOf(o.rules))
	case opTxStart:
		st.SetTxContext(hashOf(o.th), o.ti, uint32(o.ti+1))
		var dst *common.Address
		if o.dst >= 0 {
			d := addrOf(o.dst)
			dst = &d
		}
		var al types.AccessList
		for _, e := range o.al {
			t := types.AccessTuple{Address: addrOf(e.addr)}
			for _, k := range e.slots {
				t.StorageKeys = append(t.StorageKeys, hashOf(k))
			}
			al = append(al, t)
		}
		st.Prepare(rulesOf(o.rules), addrOf(o.sender), addrOf(o.coinbase), dst, nil, al)
	}
	return 0
}

func dumpImpl(st *state.StateDB, fails *[]string) Sx {
	out := SL{}
	for _, ai := range dumpAddrs {
		a := addrOf(ai)
		code := st.GetCode(a)
		cid := len(code)
		if string(code) != string(codeOf(cid)) {
			cid = 999
		}
		if st.GetCodeSize(a) != len(code) {
			*fails = append(*fails, fmt.Sprintf("GetCodeSize(%d)=%d but len(GetCode)=%d", ai, st.GetCodeSize(a), len(code)))
		}
		hid, ok := codeHashID[st.GetCodeHash(a)]
		if !ok {
			hid = 998
		}
		out = append(out, I(b2i(st.Exist(a))), I(b2i(st.Empty(a))), Big(st.GetBalance(a).ToBig()), U(st.GetNonce(a)),
			I(int64(cid)), I(int64(hid)), I(b2i(st.HasSelfDestructed(a))), I(b2i(st.IsNewContract(a))),
			I(b2i(st.AddressInAccessList(a))))
		for _, k := range dumpSlots {
			h := hashOf(k)
			ap, sp := st.SlotInAccessList(a, h)
			if ap != st.AddressInAccessList(a) {
				*fails = append(*fails, "SlotInAccessList.addressPresent != AddressInAccessList")
			}
			cur, com := st.GetStateAndCommittedState(a, h)
			if cur != st.GetState(a, h) || com != st.GetCommittedState(a, h) {
				*fails = append(*fails, "GetStateAndCommittedState disagrees with GetState/GetCommittedState")
			}
			out = append(out, Big(st.GetState(a, h).Big()), Big(st.GetCommittedState(a, h).Big()),
				Big(st.GetTransientState(a, h).Big()), I(b2i(sp)))
		}
	}
	out = append(out, U(st.GetRefund()))
	total := 0
	for _, th := range dumpHashes {
		ls := SL{}
		for _, l := range st.GetLogs(hashOf(th), 0, common.Hash{}, 0) {
			d := 0
			if len(l.Data) > 0 {
				d = int(l.Data[0])
			}
			if l.TxHash != hashOf(th) {
				*fails = append(*fails, "log filed under the wrong tx hash")
			}
			ls = append(ls, L(I(int64(l.TxIndex)), I(int64(l.Index)), I(int64(l.Address[19])), I(int64(d))))
			total++
		}
		out = append(out, ls)
	}
	all := st.Logs()
	if !sort.SliceIsSorted(all, func(i, j int) bool { return all[i].Index < all[j].Index }) {
		*fails = append(*fails, "Logs() not sorted by index")
	}
	for i, l := range all {
		if int(l.Index) != i {
			*fails = append(*fails, fmt.Sprintf("Logs()[%d].Index=%d: indices are not 0..n-1", i, l.Index))
			break
		}
	}
	return out
}

func run(c Sx) Result {
	db, ops, quiet := decodeCase(c)
	st := buildState(db)
	rf := newRef(db)
	g := newGuard(db)
	res := Result{}
	var fails []string
	obs := SL{}
	tags := map[string]bool{}
	depthMax, reverts, finalises, nested, roots := 0, 0, 0, 0, 0
	for i, o := range ops {
		g.before(rf, o)
		before := map[int]bool{}
		for a := range rf.cur.accts {
			before[a] = true
		}
		var w int
		var x Sx // the observation of the call itself
		var root common.Hash
		switch o.tag {
		case opIntermediateRoot:
			root = st.IntermediateRoot(rulesOf(o.rules))
			x = L(I(0), B(root[:]))
		case opPeek:
			a, h := addrOf(o.a), hashOf(o.k)
			x = L(Big(st.GetState(a, h).Big()), Big(st.GetCommittedState(a, h).Big()), I(b2i(st.Exist(a))))
		default:
			w = applyOp(st, o)
			x = I(int64(w))
		}
		var d Sx
		last := i == len(ops)-1
		switch {
		case o.tag == opPeek:
			obs = append(obs, x)
		case quiet:
			// no getter is called between ops: read caches (code, origin storage) stay as the ops left them
			obs = append(obs, x)
		default:
			d = dumpImpl(st, &fails)
			obs = append(obs, L(x, d))
		}
		if quiet && last {
			d = dumpImpl(st, &fails)
			obs = append(obs, d)
		}
		wr := rf.step(o)
		g.after(before, rf, o)
		tags[opNames[o.tag]] = true
		if w == 1 {
			tags["panic-"+opNames[o.tag]] = true
		}
		if len(rf.stack) > depthMax {
			depthMax = len(rf.stack)
		}
		switch o.tag {
		case opRevert:
			if w == 0 {
				reverts++
				if len(rf.stack) > 0 {
					nested++
				}
			}
		case opFinalise, opIntermediateRoot:
			finalises++
			tags[fmt.Sprintf("rules%x", o.rules)] = true
		}
		if g.unguarded == "" && len(fails) == 0 {
			switch o.tag {
			case opIntermediateRoot:
				roots++
				if want := refRoot(rf); root != want {
					fails = append(fails, fmt.Sprintf("op %d (intermediateRoot): root %x differs from the root %x of a from-scratch build of the reference model's accounts", i, root[:6], want[:6]))
				}
			case opPeek:
				rx := newRAcct()
				ex := int64(0)
				if y := rf.cur.accts[o.a]; y != nil {
					rx, ex = y, 1
				}
				want := L(Big(sval(rx.stor, o.k)), Big(sval(rx.cstor, o.k)), I(ex))
				if String(x) != String(want) {
					fails = append(fails, fmt.Sprintf("op %d (peek %d %d): read %s, reference %s", i, o.a, o.k, String(x), String(want)))
				}
			}
		}
		if g.unguarded == "" && len(fails) == 0 {
			if wr != w {
				fails = append(fails, fmt.Sprintf("op %d (%s): returned %d, reference %d", i, opNames[o.tag], w, wr))
			} else if d == nil {
				// quiet mode, not the last op: nothing observed
			} else if ds, rs := String(d), String(rf.dump()); ds != rs {
				fails = append(fails, fmt.Sprintf("op %d (%s): getters differ from the reference account model: impl=%s ref=%s",
					i, opNames[o.tag], diffAt(ds, rs), ""))
			}
		}
	}
	// the model appends 1 = "reference model and implementation model agree on this (guarded) history"
	obs = append(obs, I(1))
	res.Obs = obs
	if g.unguarded != "" {
		tags["unguarded-"+g.unguarded] = true
	} else {
		tags["guarded"] = true
	}
	if quiet {
		tags["quiet"] = true
	}
	if len(db) > 0 {
		tags["committed-start"] = true
	} else {
		tags["empty-start"] = true
	}
	tags[fmt.Sprintf("depth%d", depthMax)] = true
	tags[fmt.Sprintf("txs%d", min(finalises, 6))] = true
	tags[fmt.Sprintf("roots%d", min(roots, 4))] = true
	if nested > 0 {
		tags["nested-revert"] = true
	}
	for t := range tags {
		res.Tags = append(res.Tags, t)
	}
	res.NonTrivial = (reverts >= 1 || roots >= 1) && finalises >= 1 && len(ops) >= 8
	if len(fails) > 0 {
		if len(fails) > 3 {
			fails = fails[:3]
		}
		res.Oracle = fmt.Sprint(fails)
	}
	return res
}

// diffAt shows the first differing region of two dumps
func diffAt(a, b string) string {
	i := 0
	for i < len(a) && i < len(b) && a[i] == b[i] {
		i++
	}
	lo := max(0, i-30)
	return fmt.Sprintf("@%d impl[...%s] ref[...%s]", i, a[lo:min(len(a), i+30)], b[lo:min(len(b), i+30)])
}

// ---------------------------------------------------------------------------
// generator

var ruleSets = []int{0, 1, 1 | 4 | 8, 1 | 2 | 4 | 8} // pre-158, 158, Cancun (6780 discipline), Amsterdam

func randWord(r *Rng) *big.Int {
	switch r.Intn(10) {
	case 0:
		return new(big.Int)
	case 1:
		return new(big.Int).Sub(w256, big.NewInt(int64(1+r.Intn(3))))
	case 2:
		return new(big.Int).SetBytes(r.Bytes(32))
	default:
		return big.NewInt(int64(r.Intn(6)))
	}
}

func randU64(r *Rng) *big.Int {
	switch r.Intn(8) {
	case 0:
		return new(big.Int).Sub(w64, big.NewInt(int64(1+r.Intn(3))))
	case 1:
		return new(big.Int).SetUint64(r.U64())
	default:
		return big.NewInt(int64(r.Intn(5)))
	}
}

func genDB(r *Rng, rich bool) []dbAcct {
	var db []dbAcct
	for a := 1; a <= 4; a++ {
		if !r.Chance(3, 5) {
			continue
		}
		d := dbAcct{addr: a, bal: new(big.Int)}
		kind := r.Intn(4)
		if rich && r.Bool() {
			kind = 3 // contracts with storage on disk
		}
		switch kind {
		case 0: // empty account (pre-EIP-158 leftover)
		case 1: // balance only
			d.bal = randWord(r)
		case 2: // EOA-like
			d.nonce = randU64(r).Uint64()
			d.bal = randWord(r)
		default: // contract
			d.nonce = uint64(1 + r.Intn(3))
			d.bal = randWord(r)
			d.code = 1 + r.Intn(3)
			for k := 0; k < 4; k++ {
				if r.Bool() {
					v := randWord(r)
					if v.Sign() != 0 {
						d.stor = append(d.stor, [2]*big.Int{big.NewInt(int64(k)), v})
					}
				}
			}
		}
		if r.Chance(1, 8) || (rich && d.code == 0 && r.Chance(1, 3)) { // storage without code (possible pre-7610)
			d.stor = append(d.stor[:0], [2]*big.Int{big.NewInt(int64(r.Intn(4))), big.NewInt(int64(1 + r.Intn(5)))})
		}
		db = append(db, d)
	}
	return db
}

func encodeDB(db []dbAcct) Sx {
	out := SL{}
	for _, d := range db {
		st := SL{}
		for _, sv := range d.stor {
			st = append(st, L(Big(sv[0]), Big(sv[1])))
		}
		out = append(out, L(I(int64(d.addr)), U(d.nonce), Big(d.bal), I(int64(d.code)), st))
	}
	return out
}

// genHistory produces one history; guarded=true keeps every op inside the guards
// (the reference is then the specification); guarded=false may step outside
// (CreateContract never followed by a touch, raw SelfDestruct under Amsterdam rules).
func genHistory(r *Rng, guarded bool, long bool, quiet bool, scen bool) Sx {
	rs := ruleSets[r.Intn(len(ruleSets))]
	if scen && r.Chance(2, 3) {
		rs = ruleSets[r.Intn(2)] // pre-Cancun: SelfDestruct removes contracts that have storage on disk
	}
	var db []dbAcct
	if r.Bool() || quiet || scen {
		db = genDB(r, scen || r.Chance(1, 3))
	}
	// where roots are computed: 0 = only at the end of the block (post-Byzantium flow), 1 = after
	// every transaction (pre-Byzantium receipts), 2 = at random transaction boundaries
	rootMode := r.Intn(3)
	// on-disk storage per address (the former incarnation once the account has been deleted)
	disk := map[int]map[int]*big.Int{}
	for _, d := range db {
		for _, sv := range d.stor {
			if disk[d.addr] == nil {
				disk[d.addr] = map[int]*big.Int{}
			}
			disk[d.addr][int(sv[0].Int64())] = sv[1]
		}
	}
	phase := map[int]int{} // scenario per address with storage on disk: 0 alive, 1 deleted, 2 re-created
	if quiet { // committed contracts whose code is never read before it is overwritten
		for i := range db {
			if db[i].code == 0 && r.Bool() {
				db[i].code = 1 + r.Intn(3)
				db[i].nonce = 1
			}
		}
	}
	rf := newRef(db)
	g := newGuard(db)
	var ops []op
	emit := func(o op) {
		if o.v == nil {
			o.v = new(big.Int)
		}
		g.before(rf, o)
		before := map[int]bool{}
		for a := range rf.cur.accts {
			before[a] = true
		}
		rf.step(o)
		g.after(before, rf, o)
		ops = append(ops, o)
	}
	ntx := r.Range(1, 5)
	if scen {
		ntx = r.Range(3, 6)
	}
	use6780 := rs&8 != 0
	for tx := 0; tx < ntx; tx++ {
		start := op{tag: opTxStart, th: tx + 1, ti: tx, rules: rs, sender: r.Range(1, 4), coinbase: r.Range(1, 4), dst: -1}
		if r.Bool() {
			start.dst = r.Range(1, 4)
		}
		for n := r.Intn(3); n > 0; n-- {
			e := alEntry{addr: r.Range(1, 4)}
			for m := r.Intn(3); m > 0; m-- {
				e.slots = append(e.slots, r.Intn(4))
			}
			start.al = append(start.al, e)
		}
		if tx > 0 || r.Chance(4, 5) {
			emit(start)
		}
		if scen {
			// delete an account that has storage on disk, re-create it in a later transaction of the
			// same block, then read / write back the slots of the former incarnation
			var focus []int
			for a := range disk {
				focus = append(focus, a)
			}
			sort.Ints(focus)
			for _, a := range focus {
				if !r.Chance(2, 3) {
					continue
				}
				x := rf.cur.accts[a]
				slots := make([]int, 0, 4)
				for k := range disk[a] {
					slots = append(slots, k)
				}
				sort.Ints(slots)
				switch {
				case x != nil && phase[a] != 2: // delete it
					if rs&8 == 0 && r.Chance(2, 3) || rs&1 == 0 {
						if rs&8 == 0 || !guarded {
							emit(op{tag: opSelfDestruct, a: a})
						}
					} else { // EIP-158: make it empty (it is then touched)
						emit(op{tag: opSetCode, a: a, v: new(big.Int)})
						emit(op{tag: opSetNonce, a: a, v: new(big.Int)})
						emit(op{tag: opSetBalance, a: a, v: new(big.Int)})
					}
					phase[a] = 1
				case x == nil: // re-create it
					if r.Bool() {
						emit(op{tag: opCreateAccount, a: a})
					}
					emit(op{tag: opSetBalance, a: a, v: big.NewInt(int64(1 + r.Intn(9)))})
					if r.Chance(3, 4) && len(slots) > 0 {
						emit(op{tag: opSetState, a: a, k: slots[r.Intn(len(slots))], v: big.NewInt(int64(0x70 + r.Intn(9)))})
					}
					phase[a] = 2
				case x != nil && phase[a] == 2: // probe the former incarnation's slots
					for _, k := range slots {
						switch r.Intn(4) {
						case 0:
							emit(op{tag: opPeek, a: a, k: k})
						case 1:
							emit(op{tag: opSetState, a: a, k: k, v: disk[a][k]}) // back to the old on-disk value
						case 2:
							emit(op{tag: opSetState, a: a, k: k, v: new(big.Int)})
						}
					}
				}
			}
		}
		nops := r.Range(4, 16)
		if scen {
			nops = r.Range(0, 6)
		}
		if long {
			nops = r.Range(10, 40)
		}
		for n := 0; n < nops; n++ {
			a, k := r.Range(1, 4), r.Intn(4)
			if r.Chance(1, 6) {
				a = ripemd
			}
			switch r.Intn(24) {
			case 0:
				if rf.cur.accts[a] == nil { // evm.create: CreateAccount only if !Exist
					emit(op{tag: opCreateAccount, a: a})
				}
			case 1:
				x := rf.cur.accts[a]
				switch {
				case x == nil:
					if r.Chance(1, 3) {
						emit(op{tag: opCreateContract, a: a}) // Go panics (nil dereference)
					}
				case guarded && rs&2 != 0 && !g.originOK[a]:
					// Amsterdam: only accounts whose committed origin is blank may become new contracts
				default:
					emit(op{tag: opCreateContract, a: a})
					if guarded || r.Chance(1, 3) {
						emit(op{tag: opSetNonce, a: a, v: big.NewInt(1)}) // evm.create bumps the nonce
					}
				}
			case 2, 3:
				v := randWord(r)
				if r.Chance(1, 3) {
					v = new(big.Int)
				}
				emit(op{tag: opAddBalance, a: a, v: v})
			case 4:
				emit(op{tag: opSubBalance, a: a, v: randWord(r)})
			case 5:
				emit(op{tag: opSetBalance, a: a, v: randWord(r)})
			case 6:
				emit(op{tag: opSetNonce, a: a, v: randU64(r)})
			case 7:
				emit(op{tag: opSetCode, a: a, v: big.NewInt(int64(r.Intn(4)))})
			case 8, 9, 10:
				emit(op{tag: opSetState, a: a, k: k, v: randWord(r)})
			case 11, 12:
				emit(op{tag: opSetTransient, a: a, k: k, v: randWord(r)})
			case 13:
				if use6780 && (guarded || r.Chance(1, 2)) {
					emit(op{tag: opSelfDestruct6780, a: a})
				} else {
					emit(op{tag: opSelfDestruct, a: a})
				}
			case 14:
				emit(op{tag: opAddAddress, a: a})
			case 15:
				emit(op{tag: opAddSlot, a: a, k: k})
			case 16:
				emit(op{tag: opAddRefund, v: randU64(r)})
			case 17:
				v := randU64(r)
				if rf.cur.refund.Sign() == 0 && r.Chance(4, 5) {
					break
				}
				if r.Chance(5, 6) { // mostly legal
					v = new(big.Int).Mod(new(big.Int).SetUint64(r.U64()), new(big.Int).Add(rf.cur.refund, big.NewInt(1)))
				}
				emit(op{tag: opSubRefund, v: v})
			case 18:
				if r.Bool() {
					emit(op{tag: opAddLog, a: a, v: big.NewInt(int64(r.Intn(200)))})
				} else {
					emit(op{tag: opPeek, a: a, k: k})
				}
			case 19, 20, 21:
				if len(rf.stack) < 6 {
					emit(op{tag: opSnapshot})
				}
			default:
				if len(rf.stack) > 0 && r.Chance(9, 10) {
					pick := rf.stack[len(rf.stack)-1]
					if r.Chance(1, 3) {
						pick = rf.stack[r.Intn(len(rf.stack))] // drop several nested snapshots at once
					}
					emit(op{tag: opRevert, v: big.NewInt(int64(pick.id))})
				} else if r.Chance(1, 3) {
					emit(op{tag: opRevert, v: big.NewInt(int64(rf.next + r.Intn(3)))}) // invalid id: Go panics
				}
			}
		}
		if guarded { // every new contract has been touched by tx end (evm.create sets the nonce inside the snapshot)
			var fix []int
			for a, x := range rf.cur.accts {
				if x.created && !(rf.cur.touched[a] || (rf.sticky && a == ripemd)) {
					fix = append(fix, a)
				}
			}
			sort.Ints(fix)
			for _, a := range fix {
				emit(op{tag: opSetNonce, a: a, v: big.NewInt(1)})
			}
		}
		lastTx := tx == ntx-1
		switch {
		case lastTx && r.Chance(5, 6), rootMode == 1, rootMode == 2 && r.Bool():
			emit(op{tag: opIntermediateRoot, rules: rs})
			if r.Chance(1, 10) {
				emit(op{tag: opIntermediateRoot, rules: rs}) // idempotent
			}
		default:
			emit(op{tag: opFinalise, rules: rs})
			if r.Chance(1, 12) {
				emit(op{tag: opIntermediateRoot, rules: rs}) // Finalise, then the root, as the block processor does
			}
		}
	}
	enc := SL{}
	for _, o := range ops {
		enc = append(enc, encodeOp(o))
	}
	if quiet {
		return L(encodeDB(db), enc, I(1))
	}
	return L(encodeDB(db), enc)
}

func gen(r *Rng, tier string, emit func(Sx)) {
	n := 1500
	if tier == "thorough" {
		n = 15000
	}
	for i := 0; i < n; i++ {
		switch {
		case i%10 == 9:
			emit(genHistory(r.Fork(), false, false, false, i%20 == 19)) // adversarial stream: outside the guards
		case i%10 == 8:
			emit(genHistory(r.Fork(), true, true, false, false)) // long transactions
		case i%10 == 7 || i%10 == 6:
			emit(genHistory(r.Fork(), true, i%10 == 6, true, false)) // quiet: observed only at the end (unloaded caches)
		case i%10 == 5 || i%10 == 4:
			// delete / re-create / probe scenarios on accounts with storage on disk, half of them quiet
			emit(genHistory(r.Fork(), true, false, i%10 == 5, true))
		default:
			emit(genHistory(r.Fork(), true, false, false, false))
		}
	}
}

func main() {
	Main(Family{
		ID: "C13",
		Rule: "random histories over addresses 1..4 (3 = RIPEMD-160) x slots 0..3: 1-6 transactions (SetTxContext+Prepare ... Finalise or IntermediateRoot) of 3-16 ops " +
			"(every tenth history 10-40), nested snapshots to depth 6 with reverts to arbitrary live ids (and invalid ids), rule sets " +
			"{pre-158, 158, Cancun/6780 discipline, Amsterdam}, from the empty state and from committed states (empty, balance-only, EOA, contract " +
			"with storage on disk, storage without code); values include 0, small, 2^256-k, 2^64-k. Transaction boundaries: per history roots are computed " +
			"only at the end of the block / after every transaction / at random boundaries (so two Finalise calls with and without a root in between both occur), " +
			"occasionally twice in a row; every IntermediateRoot is compared with the root of a from-scratch build of the reference accounts (oracle) and with " +
			"the model root computed by the Coq trie + Keccak from the model's accounts. Streams: 40% generic guarded histories (reference model is the oracle after every op), " +
			"20% delete/re-create scenarios on accounts with storage on disk (SelfDestruct or EIP-158 emptying in one transaction, re-creation in a later transaction of the same block, " +
			"then reads of and writes back to the slots of the former incarnation incl. the old on-disk value; half of them quiet), 20% quiet histories from committed states with code, observed only by one dump at the end " +
			"(plus single-slot peeks) so that no getter fills the code/storage read caches between ops, 10% long transactions, 10% adversarial (CreateContract never touched, raw SelfDestruct under Amsterdam: model vs implementation only). " +
			"Non-trivial: at least one successful revert or one compared root, one Finalise/IntermediateRoot and 8 ops; distinct = distinct case line.",
		Gen: gen,
		Run: run,
	})
}
