package main

import (
	"os"
	"path/filepath"
	"strings"
	"testing"
)

const prelude = `package p

type S struct {
	A uint64
	B int64
	C bool
}

func (s S) Pure(n uint64) uint64 { return n - s.A }
`

func translate(t *testing.T, body, funcs string) (string, error) {
	t.Helper()
	dir := t.TempDir()
	src := filepath.Join(dir, "t.go")
	out := filepath.Join(dir, "t_gen.v")
	if err := os.WriteFile(src, []byte(prelude+body), 0o644); err != nil {
		t.Fatal(err)
	}
	err := run(src, funcs, "", out, "From GV Require Import Gas.GoArith.")
	b, _ := os.ReadFile(out)
	return string(b), err
}

func TestRefusals(t *testing.T) {
	cases := []struct{ name, body, want string }{
		{"loop", "func (s *S) F(n uint64) { for i := uint64(0); i < n; i++ { s.A += 1 } }", "for loop"},
		{"shift", "func (s *S) F(n uint64) uint64 { return s.A << n }", "binary operator <<"},
		{"vardiv", "func (s *S) F(n uint64) uint64 { return s.A / n }", "non-constant divisor"},
		{"shadow", "func (s *S) F() uint64 { x := s.A; if s.C { x := s.A + 1; return x }; return x }", "shadows"},
		{"switch", "func (s *S) F(n uint64) uint64 { switch n { case 1: return 2 }; return 0 }", "switch statement"},
		{"external", "func (s *S) F(n uint64) uint64 { return other(n) }", "not declared in this file"},
		{"recursion", "func (s *S) F(n uint64) uint64 { return s.F(n) }", "recursion"},
		{"untyped", "func (s *S) F() uint64 { x := 5; return uint64(x) }", "untyped constant"},
		{"defer", "func (s *S) F() { defer s.Pure(1) }", "defer statement"},
		{"parallel", "func (s *S) F(a, b uint64) { a, b = b, a; s.A = a }", "parallel"},
		{"ptrparam", "func (s *S) F(o *S) { o.A = 1 }", "mutation through pointer parameter"},
		{"overflow", "func (s *S) F() uint64 { return 18446744073709551616 }", "overflows uint64"},
		{"conv", "func (s *S) F() uint64 { return uint64(uint32(s.A)) }", "conversion to uint32"},
		{"pkgvar", "var K uint64 = 3\nfunc (s *S) F() uint64 { return K }", "identifier K"},
		{"errorf", "func (s *S) F() error { return fmt.Errorf(\"x %d\", s.A) }", "without a %w"},
		{"named", "func (s *S) F() (r uint64) { return 1 }", "named result"},
		{"logcrit", "func (s *S) F() { log.Crit(\"x\") }", "log.Crit"},
	}
	for _, c := range cases {
		out, err := translate(t, c.body, "S.F,S.Pure")
		if err == nil {
			t.Errorf("%s: accepted; output:\n%s", c.name, out)
			continue
		}
		if !strings.Contains(err.Error(), "REFUSED") || !strings.Contains(err.Error(), c.want) {
			t.Errorf("%s: refusal %q does not name %q", c.name, err, c.want)
		}
	}
}

func TestAccepted(t *testing.T) {
	body := `func (s *S) F(n uint64, m int64) (uint64, bool) {
	var z uint64
	z = n*3 + 7
	s.B -= m
	s.B++
	if s.C && z != 4 || !(m >= -1) {
		s.A = max(z, n, 9)
	} else if z == 1 {
		s.C = true
	}
	return uint64(s.B) % 10 + s.Pure(n), s.C == false
}`
	out, err := translate(t, body, "S.F,S.Pure")
	if err != nil {
		t.Fatal(err)
	}
	for _, want := range []string{
		"Definition S_F (s : S) (n : Z) (m : Z) : S * Z * bool :=",
		"let z := (u64 ((u64 (n * 3)) + 7)) in",
		"let s := set_S_B s (i64 ((S_B s) - m)) in",
		"(orb (andb (S_C s) (negb (z =? 4))) (negb ((-1) <=? m)))",
		"(Z.max (Z.max z n) 9)",
		"((u64 (S_B s)) mod 10)",
		"(S_Pure s n)",
	} {
		if !strings.Contains(out, want) {
			t.Errorf("missing %q in:\n%s", want, out)
		}
	}
}
