module gethverif/tools/go2coq

go 1.23
