// go2coq translates the arithmetic subset of Go into Gallina (Coq 8.16).
//
//	go2coq -src <file.go> -funcs <list> [-skip <list>] -out <file_gen.v> [-module Gas.Budget_gen]
//
// <list> is comma separated: `Type.method`, `Type.*` (every method of Type declared in
// the file, minus -skip), or a plain function name.
//
// The accepted subset is documented in README.md next to this file.  Anything
// outside the subset makes the translator REFUSE: it prints
// `go2coq: REFUSED <file>:<line>:<col>: <construct>` and exits with status 3,
// writing no output.  It never guesses.
//
// Machine arithmetic is written out: every uint64 `+ - *` and unary minus is wrapped in
// `u64` (= `x mod 2^64`), every int64 one in `i64` (two's-complement normalisation),
// conversions uint64<->int64 likewise; both are defined in coq/Gas/GoArith.v.
package main

import (
	"crypto/sha256"
	"flag"
	"fmt"
	"go/ast"
	"go/parser"
	"go/token"
	"math/big"
	"os"
	"sort"
	"strings"
)

// ---------------------------------------------------------------- types

type kind int

const (
	kU64 kind = iota
	kI64
	kBool
	kStruct
	kErr
	kUntyped // untyped integer constant
)

type typ struct {
	k    kind
	name string // struct name
}

func (t typ) String() string {
	switch t.k {
	case kU64:
		return "uint64"
	case kI64:
		return "int64"
	case kBool:
		return "bool"
	case kStruct:
		return t.name
	case kErr:
		return "error"
	}
	return "untyped-const"
}

func (t typ) coq() string {
	switch t.k {
	case kU64, kI64, kErr:
		return "Z"
	case kBool:
		return "bool"
	case kStruct:
		return t.name
	}
	return "?"
}

type field struct {
	name string
	t    typ
}

type structInfo struct {
	name   string
	fields []field
	used   bool
	spec   *ast.TypeSpec
	done   bool
}

type param struct {
	name string
	t    typ
	ptr  bool
}

type funcInfo struct {
	key      string
	decl     *ast.FuncDecl
	hasRecv  bool
	recvName string
	recvType string
	recvPtr  bool
	params   []param
	results  []typ
	mayPanic bool
	coqName  string
	sigDone  bool
	state    int // 0 untranslated, 1 in progress, 2 done
	text     string
}

type refusal struct{ msg string }

type translator struct {
	fset    *token.FileSet
	file    *ast.File
	structs map[string]*structInfo
	sorder  []string
	funcs   map[string]*funcInfo
	forder  []string        // every function in the file, source order
	want    map[string]bool // requested keys
	emitted []*funcInfo     // dependency order
	errs    map[string]bool // error-class constants referenced
}

func (t *translator) refuse(n ast.Node, format string, args ...interface{}) {
	pos := ""
	if n != nil {
		pos = t.fset.Position(n.Pos()).String() + ": "
	}
	panic(refusal{pos + fmt.Sprintf(format, args...)})
}

var two64 = new(big.Int).Lsh(big.NewInt(1), 64)
var two63 = new(big.Int).Lsh(big.NewInt(1), 63)

// identifiers that must not be used for Go locals in the generated text
var reserved = map[string]bool{
	"as": true, "at": true, "cofix": true, "else": true, "end": true, "exists": true, "exists2": true,
	"fix": true, "for": true, "forall": true, "fun": true, "if": true, "IF": true, "in": true, "let": true,
	"match": true, "mod": true, "Prop": true, "return": true, "Set": true, "then": true, "Type": true,
	"using": true, "where": true, "with": true, "SProp": true,
	"fst": true, "snd": true, "negb": true, "andb": true, "orb": true, "Some": true, "None": true,
	"true": true, "false": true, "u64": true, "i64": true, "Z": true, "bool": true, "option": true,
	"pair": true, "tt": true, "unit": true, "Bool": true,
}

func (t *translator) ident(n ast.Node, name string) string {
	for _, r := range name {
		if !(r == '_' || r >= '0' && r <= '9' || r >= 'a' && r <= 'z' || r >= 'A' && r <= 'Z') {
			t.refuse(n, "identifier %q with non-ASCII characters", name)
		}
	}
	if reserved[name] || strings.HasPrefix(name, "set_") || strings.HasPrefix(name, "mk") && t.structs[name[2:]] != nil {
		return name + "_"
	}
	if _, isStruct := t.structs[name]; isStruct {
		return name + "_"
	}
	return name
}

// ---------------------------------------------------------------- declarations

func (t *translator) resolveType(e ast.Expr) (typ, bool) {
	switch x := e.(type) {
	case *ast.Ident:
		switch x.Name {
		case "uint64":
			return typ{k: kU64}, false
		case "int64":
			return typ{k: kI64}, false
		case "bool":
			return typ{k: kBool}, false
		case "error":
			return typ{k: kErr}, false
		}
		if si, ok := t.structs[x.Name]; ok {
			t.useStruct(si)
			return typ{k: kStruct, name: x.Name}, false
		}
		t.refuse(e, "type %s (only uint64, int64, bool, error and flat structs of uint64/int64/bool declared in the same file are supported)", x.Name)
	case *ast.StarExpr:
		if id, ok := x.X.(*ast.Ident); ok {
			if si, ok := t.structs[id.Name]; ok {
				t.useStruct(si)
				return typ{k: kStruct, name: id.Name}, true
			}
		}
		t.refuse(e, "pointer type other than pointer to a translated struct")
	}
	t.refuse(e, "type expression %T", e)
	return typ{}, false
}

func (t *translator) useStruct(si *structInfo) {
	si.used = true
	if si.done {
		return
	}
	si.done = true
	st := si.spec.Type.(*ast.StructType)
	for _, f := range st.Fields.List {
		if len(f.Names) == 0 {
			t.refuse(f, "embedded field in struct %s", si.name)
		}
		id, ok := f.Type.(*ast.Ident)
		var ft typ
		switch {
		case ok && id.Name == "uint64":
			ft = typ{k: kU64}
		case ok && id.Name == "int64":
			ft = typ{k: kI64}
		case ok && id.Name == "bool":
			ft = typ{k: kBool}
		default:
			t.refuse(f.Type, "field type in struct %s (only uint64, int64, bool fields: flat structs)", si.name)
		}
		for _, n := range f.Names {
			si.fields = append(si.fields, field{n.Name, ft})
		}
	}
	if len(si.fields) == 0 {
		t.refuse(si.spec, "empty struct %s", si.name)
	}
}

func (t *translator) signature(fi *funcInfo) {
	if fi.sigDone {
		return
	}
	fi.sigDone = true
	d := fi.decl
	if d.Type.TypeParams != nil {
		t.refuse(d, "generic function %s", fi.key)
	}
	if d.Body == nil {
		t.refuse(d, "function %s without body", fi.key)
	}
	if fi.hasRecv {
		r := d.Recv.List[0]
		if len(r.Names) == 1 && r.Names[0].Name != "_" {
			fi.recvName = r.Names[0].Name
		} else {
			fi.recvName = "recv"
		}
		rt, ptr := t.resolveType(r.Type)
		if rt.k != kStruct {
			t.refuse(r.Type, "receiver of non-struct type")
		}
		fi.recvPtr = ptr
	}
	for _, p := range d.Type.Params.List {
		pt, ptr := t.resolveType(p.Type)
		if pt.k == kErr {
			t.refuse(p.Type, "parameter of type error")
		}
		if len(p.Names) == 0 {
			t.refuse(p, "unnamed parameter")
		}
		for _, n := range p.Names {
			fi.params = append(fi.params, param{n.Name, pt, ptr})
		}
	}
	if d.Type.Results != nil {
		for _, r := range d.Type.Results.List {
			if len(r.Names) > 0 {
				t.refuse(r, "named result parameters")
			}
			rt, _ := t.resolveType(r.Type)
			fi.results = append(fi.results, rt)
		}
	}
	ast.Inspect(d.Body, func(n ast.Node) bool {
		if c, ok := n.(*ast.CallExpr); ok {
			if id, ok := c.Fun.(*ast.Ident); ok && id.Name == "panic" {
				fi.mayPanic = true
			}
		}
		return true
	})
}

// ---------------------------------------------------------------- environments

const (
	vLocal = iota
	vRecvPtr
	vPtrParam
)

type varInfo struct {
	t     typ
	kind  int
	depth int
	coq   string
}

type env struct {
	vars  map[string]varInfo
	depth int
}

func (e env) with(name string, v varInfo) env {
	m := make(map[string]varInfo, len(e.vars)+1)
	for k, x := range e.vars {
		m[k] = x
	}
	m[name] = v
	return env{m, e.depth}
}

func (e env) deeper() env { return env{e.vars, e.depth + 1} }

type val struct {
	code string
	t    typ
	c    *big.Int
}

type fn struct {
	t     *translator
	fi    *funcInfo
	steps int
}

func ind(n int) string { return strings.Repeat("  ", n) }

func lit(c *big.Int) string {
	if c.Sign() < 0 {
		return "(" + c.String() + ")"
	}
	return c.String()
}

func (f *fn) coerce(n ast.Node, v val, want typ) val {
	if v.t.k == kUntyped {
		switch want.k {
		case kU64:
			if v.c.Sign() < 0 || v.c.Cmp(two64) >= 0 {
				f.t.refuse(n, "constant %s overflows uint64", v.c)
			}
		case kI64:
			if v.c.Cmp(new(big.Int).Neg(two63)) < 0 || v.c.Cmp(two63) >= 0 {
				f.t.refuse(n, "constant %s overflows int64", v.c)
			}
		default:
			f.t.refuse(n, "untyped integer constant used as %s", want)
		}
		return val{lit(v.c), want, nil}
	}
	if v.t != want {
		f.t.refuse(n, "type mismatch: have %s, want %s (outside the translator's type inference)", v.t, want)
	}
	return v
}

// ---------------------------------------------------------------- expressions

func isIdent(e ast.Expr, name string) bool {
	id, ok := e.(*ast.Ident)
	return ok && id.Name == name
}

// pkgSel recognises pkg.Name where pkg is not a variable in scope.
func (f *fn) pkgSel(e ast.Expr, en env) (string, string, bool) {
	s, ok := e.(*ast.SelectorExpr)
	if !ok {
		return "", "", false
	}
	id, ok := s.X.(*ast.Ident)
	if !ok {
		return "", "", false
	}
	if _, bound := en.vars[id.Name]; bound {
		return "", "", false
	}
	return id.Name, s.Sel.Name, true
}

func (f *fn) lookupMethod(tn, m string) *funcInfo {
	fi := f.t.funcs[tn+"."+m]
	return fi
}

// resolveCall: is this a call to a function/method declared in the file?
func (f *fn) resolveCall(call *ast.CallExpr, en env) (*funcInfo, ast.Expr) {
	switch fun := call.Fun.(type) {
	case *ast.Ident:
		if _, bound := en.vars[fun.Name]; bound {
			f.t.refuse(call, "call of a function value")
		}
		if fi, ok := f.t.funcs[fun.Name]; ok {
			return fi, nil
		}
	case *ast.SelectorExpr:
		if _, _, isPkg := f.pkgSel(fun, en); isPkg {
			return nil, nil
		}
		rv := f.expr(fun.X, en)
		if rv.t.k != kStruct {
			f.t.refuse(call, "method call on a non-struct value")
		}
		fi := f.lookupMethod(rv.t.name, fun.Sel.Name)
		if fi == nil {
			f.t.refuse(call, "call of method %s.%s which is not declared in this file", rv.t.name, fun.Sel.Name)
		}
		return fi, fun.X
	}
	return nil, nil
}

func (f *fn) needCallee(call *ast.CallExpr, fi *funcInfo) {
	if !f.t.want[fi.key] {
		f.t.refuse(call, "call to %s, which is not in the set of functions to translate (add it to -funcs)", fi.key)
	}
	f.t.translate(fi, call)
}

func (f *fn) args(call *ast.CallExpr, fi *funcInfo, en env) string {
	if call.Ellipsis.IsValid() {
		f.t.refuse(call, "variadic call")
	}
	if len(call.Args) != len(fi.params) {
		f.t.refuse(call, "argument count mismatch calling %s", fi.key)
	}
	var sb strings.Builder
	for i, a := range call.Args {
		sb.WriteString(" ")
		sb.WriteString(atom(f.exprAs(a, en, fi.params[i].t)))
	}
	return sb.String()
}

func atom(s string) string {
	simple := true
	for _, r := range s {
		if !(r == '_' || r == '.' || r >= '0' && r <= '9' || r >= 'a' && r <= 'z' || r >= 'A' && r <= 'Z') {
			simple = false
			break
		}
	}
	if simple || (strings.HasPrefix(s, "(") && strings.HasSuffix(s, ")") && balanced(s)) {
		return s
	}
	return "(" + s + ")"
}

// balanced: the leading '(' matches the final ')'
func balanced(s string) bool {
	d := 0
	for i, r := range s {
		if r == '(' {
			d++
		} else if r == ')' {
			d--
			if d == 0 && i != len(s)-1 {
				return false
			}
		}
	}
	return d == 0
}

func (f *fn) exprAs(e ast.Expr, en env, want typ) string {
	if want.k == kErr {
		return f.errExpr(e, en)
	}
	return f.coerce(e, f.expr(e, en), want).code
}

// errExpr: an expression of type error, abstracted to its class (a Z constant):
// nil = 0; a package-level error variable E = the generated constant E;
// fmt.Errorf("...%w...", E, ...) = the class of the wrapped E.
func (f *fn) errExpr(e ast.Expr, en env) string {
	switch x := e.(type) {
	case *ast.ParenExpr:
		return f.errExpr(x.X, en)
	case *ast.Ident:
		if x.Name == "nil" {
			return "0"
		}
		if v, ok := en.vars[x.Name]; ok {
			if v.t.k != kErr {
				f.t.refuse(e, "non-error variable used as error")
			}
			return v.coq
		}
		name := f.t.ident(e, x.Name)
		f.t.errs[name] = true
		return name
	case *ast.SelectorExpr:
		if pkg, name, ok := f.pkgSel(x, en); ok {
			n := f.t.ident(e, pkg+"_"+name)
			f.t.errs[n] = true
			return n
		}
	case *ast.CallExpr:
		if pkg, name, ok := f.pkgSel(x.Fun, en); ok && pkg == "fmt" && name == "Errorf" && len(x.Args) >= 1 {
			fl, ok := x.Args[0].(*ast.BasicLit)
			if !ok || fl.Kind != token.STRING {
				f.t.refuse(e, "fmt.Errorf with a non-literal format")
			}
			idx := wrapVerbIndex(fl.Value)
			if idx < 0 || idx+1 >= len(x.Args) {
				f.t.refuse(e, "fmt.Errorf without a %%w verb (no error class can be assigned)")
			}
			// remaining arguments must be side-effect free: translate and discard
			for i, a := range x.Args[1:] {
				if i != idx {
					f.pureIgnored(a, en)
				}
			}
			return f.errExpr(x.Args[idx+1], en)
		}
	}
	f.t.refuse(e, "error-valued expression %T (only nil, error variables and fmt.Errorf with %%w are supported)", e)
	return ""
}

// wrapVerbIndex: index (among the verbs of a format string literal) of the first %w, or -1
func wrapVerbIndex(q string) int {
	n := 0
	for i := 0; i < len(q); i++ {
		if q[i] != '%' {
			continue
		}
		i++
		if i < len(q) && q[i] == '%' {
			continue
		}
		for i < len(q) && strings.ContainsRune("+-# 0123456789.", rune(q[i])) {
			i++
		}
		if i < len(q) && q[i] == 'w' {
			return n
		}
		n++
	}
	return -1
}

// pureIgnored: an argument of a logging / formatting call; must be in the pure subset
// (or a string literal); its value is discarded.
func (f *fn) pureIgnored(a ast.Expr, en env) {
	if bl, ok := a.(*ast.BasicLit); ok && bl.Kind == token.STRING {
		return
	}
	if c, ok := a.(*ast.CallExpr); ok {
		if pkg, name, ok := f.pkgSel(c.Fun, en); ok && pkg == "fmt" && name == "Sprintf" {
			for _, x := range c.Args {
				f.pureIgnored(x, en)
			}
			return
		}
	}
	if id, ok := a.(*ast.Ident); ok {
		if v, ok := en.vars[id.Name]; ok && v.t.k == kErr {
			return
		}
	}
	f.expr(a, en)
}

func (f *fn) expr(e ast.Expr, en env) val {
	t := f.t
	switch x := e.(type) {
	case *ast.BasicLit:
		if x.Kind != token.INT {
			t.refuse(e, "literal of kind %s (only integer literals)", x.Kind)
		}
		c, ok := new(big.Int).SetString(strings.ReplaceAll(x.Value, "_", ""), 0)
		if !ok {
			t.refuse(e, "integer literal %s", x.Value)
		}
		return val{lit(c), typ{k: kUntyped}, c}
	case *ast.ParenExpr:
		v := f.expr(x.X, en)
		return v
	case *ast.Ident:
		switch x.Name {
		case "true", "false":
			if _, bound := en.vars[x.Name]; !bound {
				return val{x.Name, typ{k: kBool}, nil}
			}
		case "nil":
			t.refuse(e, "nil outside an error context")
		}
		if v, ok := en.vars[x.Name]; ok {
			return val{v.coq, v.t, nil}
		}
		t.refuse(e, "identifier %s (not a parameter, local or receiver; package-level variables and constants are outside the subset)", x.Name)
	case *ast.SelectorExpr:
		if pkg, name, ok := f.pkgSel(x, en); ok {
			if pkg == "math" {
				switch name {
				case "MaxUint64":
					c := new(big.Int).Sub(two64, big.NewInt(1))
					return val{lit(c), typ{k: kUntyped}, c}
				case "MaxInt64":
					c := new(big.Int).Sub(two63, big.NewInt(1))
					return val{lit(c), typ{k: kUntyped}, c}
				case "MinInt64":
					c := new(big.Int).Neg(two63)
					return val{lit(c), typ{k: kUntyped}, c}
				}
			}
			t.refuse(e, "reference to %s.%s (only math.MaxUint64, math.MaxInt64, math.MinInt64)", pkg, name)
		}
		b := f.expr(x.X, en)
		if b.t.k != kStruct {
			t.refuse(e, "field selection on a non-struct")
		}
		si := t.structs[b.t.name]
		for _, fl := range si.fields {
			if fl.name == x.Sel.Name {
				return val{"(" + si.name + "_" + fl.name + " " + atom(b.code) + ")", fl.t, nil}
			}
		}
		t.refuse(e, "%s.%s is not a field (method values are outside the subset)", b.t.name, x.Sel.Name)
	case *ast.StarExpr:
		id, ok := x.X.(*ast.Ident)
		if ok {
			if v, ok := en.vars[id.Name]; ok && (v.kind == vRecvPtr || v.kind == vPtrParam) {
				return val{v.coq, v.t, nil}
			}
		}
		t.refuse(e, "pointer dereference other than of the receiver or a pointer-to-struct parameter")
	case *ast.UnaryExpr:
		switch x.Op {
		case token.NOT:
			v := f.coerce(x.X, f.expr(x.X, en), typ{k: kBool})
			return val{"(negb " + atom(v.code) + ")", typ{k: kBool}, nil}
		case token.SUB:
			v := f.expr(x.X, en)
			switch v.t.k {
			case kUntyped:
				c := new(big.Int).Neg(v.c)
				return val{lit(c), v.t, c}
			case kU64:
				return val{"(u64 (- " + atom(v.code) + "))", v.t, nil}
			case kI64:
				return val{"(i64 (- " + atom(v.code) + "))", v.t, nil}
			}
			t.refuse(e, "unary minus on %s", v.t)
		case token.ADD:
			v := f.expr(x.X, en)
			if v.t.k == kUntyped || v.t.k == kU64 || v.t.k == kI64 {
				return v
			}
			t.refuse(e, "unary plus on %s", v.t)
		case token.AND:
			if cl, ok := x.X.(*ast.CompositeLit); ok {
				// &T{...}: a fresh object; pointer identity is not modelled
				return f.expr(cl, en)
			}
			t.refuse(e, "address-of (only &T{...} of a translated struct)")
		}
		t.refuse(e, "unary operator %s", x.Op)
	case *ast.BinaryExpr:
		return f.binary(x, en)
	case *ast.CompositeLit:
		id, ok := x.Type.(*ast.Ident)
		if !ok || t.structs[id.Name] == nil {
			t.refuse(e, "composite literal of a type other than a translated struct")
		}
		si := t.structs[id.Name]
		t.useStruct(si)
		vals := make([]string, len(si.fields))
		for i, fl := range si.fields {
			if fl.t.k == kBool {
				vals[i] = "false"
			} else {
				vals[i] = "0"
			}
		}
		seen := map[string]bool{}
		for i, el := range x.Elts {
			kv, ok := el.(*ast.KeyValueExpr)
			if !ok {
				if len(x.Elts) != len(si.fields) {
					t.refuse(el, "positional composite literal with missing fields")
				}
				vals[i] = atom(f.exprAs(el, en, si.fields[i].t))
				continue
			}
			kid, ok := kv.Key.(*ast.Ident)
			if !ok {
				t.refuse(kv, "composite literal key")
			}
			found := false
			for j, fl := range si.fields {
				if fl.name == kid.Name {
					if seen[fl.name] {
						t.refuse(kv, "duplicate field %s", fl.name)
					}
					seen[fl.name] = true
					vals[j] = atom(f.exprAs(kv.Value, en, fl.t))
					found = true
				}
			}
			if !found {
				t.refuse(kv, "unknown field %s of %s", kid.Name, si.name)
			}
		}
		return val{"(mk" + si.name + " " + strings.Join(vals, " ") + ")", typ{k: kStruct, name: si.name}, nil}
	case *ast.CallExpr:
		return f.callExpr(x, en)
	}
	t.refuse(e, "expression %T", e)
	return val{}
}

func (f *fn) callExpr(x *ast.CallExpr, en env) val {
	t := f.t
	if id, ok := x.Fun.(*ast.Ident); ok {
		if _, bound := en.vars[id.Name]; !bound {
			switch id.Name {
			case "uint64", "int64":
				if len(x.Args) != 1 {
					t.refuse(x, "conversion with %d arguments", len(x.Args))
				}
				v := f.expr(x.Args[0], en)
				to := typ{k: kU64}
				wrap := "u64"
				if id.Name == "int64" {
					to = typ{k: kI64}
					wrap = "i64"
				}
				switch v.t.k {
				case kUntyped:
					return f.coerce(x, v, to)
				case kU64, kI64:
					if v.t == to {
						return val{v.code, to, nil}
					}
					return val{"(" + wrap + " " + atom(v.code) + ")", to, nil}
				}
				t.refuse(x, "conversion of %s to %s", v.t, id.Name)
			case "min", "max":
				if len(x.Args) < 1 {
					t.refuse(x, "%s without arguments", id.Name)
				}
				vs := make([]val, len(x.Args))
				var tt *typ
				for i, a := range x.Args {
					vs[i] = f.expr(a, en)
					if vs[i].t.k != kUntyped {
						if tt != nil && *tt != vs[i].t {
							t.refuse(x, "%s over mixed types", id.Name)
						}
						ty := vs[i].t
						tt = &ty
					}
				}
				if tt == nil || (tt.k != kU64 && tt.k != kI64) {
					t.refuse(x, "%s over operands that are not uint64/int64 variables", id.Name)
				}
				op := "Z.min"
				if id.Name == "max" {
					op = "Z.max"
				}
				acc := f.coerce(x.Args[0], vs[0], *tt).code
				for i := 1; i < len(vs); i++ {
					acc = "(" + op + " " + atom(acc) + " " + atom(f.coerce(x.Args[i], vs[i], *tt).code) + ")"
				}
				return val{acc, *tt, nil}
			case "int", "uint", "int8", "int16", "int32", "uint8", "uint16", "uint32", "uintptr", "byte", "rune",
				"float32", "float64", "string", "complex64", "complex128":
				t.refuse(x, "conversion to %s (only uint64 and int64)", id.Name)
			case "len", "cap", "append", "copy", "make", "new", "delete", "panic", "recover", "print", "println", "clear", "close", "complex", "real", "imag":
				t.refuse(x, "builtin %s in an expression", id.Name)
			}
		}
	}
	if pkg, name, ok := f.pkgSel(x.Fun, en); ok {
		t.refuse(x, "call to external function %s.%s", pkg, name)
	}
	fi, recv := f.resolveCall(x, en)
	if fi == nil {
		t.refuse(x, "call to a function that is not declared in this file")
	}
	f.needCallee(x, fi)
	if fi.recvPtr {
		t.refuse(x, "call of pointer-receiver method %s inside an expression (allowed only as a statement, as the sole right-hand side of an assignment, or as the sole operand of return)", fi.key)
	}
	if fi.mayPanic {
		t.refuse(x, "call of %s, which may panic, from translated code", fi.key)
	}
	if len(fi.results) != 1 {
		t.refuse(x, "call of %s with %d results inside an expression", fi.key, len(fi.results))
	}
	code := fi.coqName
	if fi.hasRecv {
		code += " " + atom(f.expr(recv, en).code)
	}
	code += f.args(x, fi, en)
	return val{"(" + code + ")", fi.results[0], nil}
}

func (f *fn) binary(x *ast.BinaryExpr, en env) val {
	t := f.t
	tb := typ{k: kBool}
	switch x.Op {
	case token.LAND, token.LOR:
		l := f.coerce(x.X, f.expr(x.X, en), tb)
		r := f.coerce(x.Y, f.expr(x.Y, en), tb)
		op := "andb"
		if x.Op == token.LOR {
			op = "orb"
		}
		return val{"(" + op + " " + atom(l.code) + " " + atom(r.code) + ")", tb, nil}
	}
	// error comparisons
	if x.Op == token.EQL || x.Op == token.NEQ {
		isErr := func(e ast.Expr) bool {
			if isIdent(e, "nil") {
				return true
			}
			if id, ok := e.(*ast.Ident); ok {
				if v, ok := en.vars[id.Name]; ok && v.t.k == kErr {
					return true
				}
			}
			return false
		}
		if isErr(x.X) || isErr(x.Y) {
			l, r := f.errExpr(x.X, en), f.errExpr(x.Y, en)
			c := "(" + atom(l) + " =? " + atom(r) + ")"
			if x.Op == token.NEQ {
				c = "(negb " + c + ")"
			}
			return val{c, tb, nil}
		}
	}
	l, r := f.expr(x.X, en), f.expr(x.Y, en)
	// constant folding of untyped constants is exact (Go constant arithmetic)
	if l.t.k == kUntyped && r.t.k == kUntyped {
		c := new(big.Int)
		switch x.Op {
		case token.ADD:
			c.Add(l.c, r.c)
		case token.SUB:
			c.Sub(l.c, r.c)
		case token.MUL:
			c.Mul(l.c, r.c)
		case token.QUO:
			if r.c.Sign() == 0 {
				t.refuse(x, "constant division by zero")
			}
			c.Quo(l.c, r.c)
		default:
			t.refuse(x, "operator %s on two untyped constants", x.Op)
		}
		return val{lit(c), l.t, c}
	}
	var ot typ
	if l.t.k == kUntyped {
		ot = r.t
	} else {
		ot = l.t
	}
	divisorConst := r.c
	if r.t.k != kUntyped {
		divisorConst = nil
	}
	l, r = f.coerce(x.X, l, ot), f.coerce(x.Y, r, ot)
	a, b := atom(l.code), atom(r.code)
	switch x.Op {
	case token.ADD, token.SUB, token.MUL:
		if ot.k != kU64 && ot.k != kI64 {
			t.refuse(x, "operator %s on %s", x.Op, ot)
		}
		w := "u64"
		if ot.k == kI64 {
			w = "i64"
		}
		return val{"(" + w + " (" + a + " " + x.Op.String() + " " + b + "))", ot, nil}
	case token.QUO, token.REM:
		if ot.k != kU64 && ot.k != kI64 {
			t.refuse(x, "operator %s on %s", x.Op, ot)
		}
		if divisorConst == nil {
			t.refuse(x, "division by a non-constant divisor (Go panics on zero; only constant non-zero divisors are in the subset)")
		}
		if divisorConst.Sign() == 0 {
			t.refuse(x, "division by constant zero")
		}
		if ot.k == kU64 {
			if x.Op == token.QUO {
				return val{"(" + a + " / " + b + ")", ot, nil}
			}
			return val{"(" + a + " mod " + b + ")", ot, nil}
		}
		if x.Op == token.QUO {
			return val{"(i64 (Z.quot " + a + " " + b + "))", ot, nil}
		}
		return val{"(Z.rem " + a + " " + b + ")", ot, nil}
	case token.LSS, token.LEQ, token.GTR, token.GEQ:
		if ot.k != kU64 && ot.k != kI64 {
			t.refuse(x, "ordering comparison on %s", ot)
		}
		// a > b is emitted as b <? a, a >= b as b <=? a
		switch x.Op {
		case token.LSS:
			return val{"(" + a + " <? " + b + ")", tb, nil}
		case token.LEQ:
			return val{"(" + a + " <=? " + b + ")", tb, nil}
		case token.GTR:
			return val{"(" + b + " <? " + a + ")", tb, nil}
		default:
			return val{"(" + b + " <=? " + a + ")", tb, nil}
		}
	case token.EQL, token.NEQ:
		var c string
		switch ot.k {
		case kU64, kI64:
			c = "(" + a + " =? " + b + ")"
		case kBool:
			c = "(Bool.eqb " + a + " " + b + ")"
		default:
			t.refuse(x, "equality on %s", ot)
		}
		if x.Op == token.NEQ {
			c = "(negb " + c + ")"
		}
		return val{c, tb, nil}
	}
	t.refuse(x, "binary operator %s (bit operations and shifts are outside the subset)", x.Op)
	return val{}
}

// ---------------------------------------------------------------- statements

type cont func(en env, n int) string

func (f *fn) ret(vals []string) string {
	var comps []string
	if f.fi.hasRecv && f.fi.recvPtr {
		comps = append(comps, f.t.ident(nil, f.fi.recvName))
	}
	comps = append(comps, vals...)
	var s string
	switch len(comps) {
	case 0:
		s = "tt"
	case 1:
		s = comps[0]
	default:
		s = "(" + strings.Join(comps, ", ") + ")"
	}
	if f.fi.mayPanic {
		s = "Some " + atom(s)
	}
	return s
}

func (f *fn) block(stmts []ast.Stmt, en env, n int, k cont) string {
	if len(stmts) == 0 {
		return k(en, n)
	}
	rest := stmts[1:]
	return f.stmt(stmts[0], en, n, func(e2 env, n2 int) string { return f.block(rest, e2, n2, k) })
}

// bindCall emits  let '(recv, names...) := Callee recv args in
func (f *fn) bindCall(call *ast.CallExpr, fi *funcInfo, recv ast.Expr, names []string, en env, n int) string {
	t := f.t
	f.needCallee(call, fi)
	if fi.mayPanic {
		t.refuse(call, "call of %s, which may panic, from translated code", fi.key)
	}
	var pat []string
	code := fi.coqName
	if fi.hasRecv {
		if fi.recvPtr {
			id, ok := recv.(*ast.Ident)
			if !ok {
				t.refuse(call, "pointer-receiver method %s called on something other than a variable", fi.key)
			}
			v, ok := en.vars[id.Name]
			if !ok || v.t.k != kStruct {
				t.refuse(call, "pointer-receiver method %s called on a non-struct variable", fi.key)
			}
			if v.kind == vPtrParam {
				t.refuse(call, "mutation through pointer parameter %s", id.Name)
			}
			pat = append(pat, v.coq)
			code += " " + v.coq
		} else {
			code += " " + atom(f.expr(recv, en).code)
		}
	}
	code += f.args(call, fi, en)
	pat = append(pat, names...)
	var p string
	switch len(pat) {
	case 0:
		p = "_"
	case 1:
		p = pat[0]
	default:
		p = "'(" + strings.Join(pat, ", ") + ")"
	}
	return ind(n) + "let " + p + " := " + code + " in\n"
}

// impure: a call that must be sequenced (pointer receiver) or has several results
func (f *fn) impureCall(e ast.Expr, en env) (*ast.CallExpr, *funcInfo, ast.Expr) {
	for {
		p, ok := e.(*ast.ParenExpr)
		if !ok {
			break
		}
		e = p.X
	}
	call, ok := e.(*ast.CallExpr)
	if !ok {
		return nil, nil, nil
	}
	if id, ok := call.Fun.(*ast.Ident); ok {
		if _, isFn := f.t.funcs[id.Name]; !isFn {
			return nil, nil, nil
		}
	}
	if _, _, isPkg := f.pkgSel(call.Fun, en); isPkg {
		return nil, nil, nil
	}
	fi, recv := f.resolveCall(call, en)
	if fi == nil {
		return nil, nil, nil
	}
	f.t.signature(fi)
	if fi.recvPtr || len(fi.results) != 1 {
		return call, fi, recv
	}
	return nil, nil, nil
}

func (f *fn) declare(n ast.Node, en env, name string, ty typ) (env, string) {
	if name == "_" {
		return en, "_"
	}
	if old, ok := en.vars[name]; ok {
		_ = old
		f.t.refuse(n, "declaration of %s shadows or redeclares an existing variable (shadowing is outside the subset)", name)
	}
	if _, isFn := f.t.funcs[name]; isFn {
		f.t.refuse(n, "local %s shadows a function of the file", name)
	}
	c := f.t.ident(n, name)
	return en.with(name, varInfo{t: ty, kind: vLocal, depth: en.depth, coq: c}), c
}

// assignTo emits the binding for  lhs = code  (code already of the right type)
func (f *fn) assignTo(lhs ast.Expr, en env, n int, mk func(want typ, cur string) string) string {
	t := f.t
	switch l := lhs.(type) {
	case *ast.Ident:
		if l.Name == "_" {
			t.refuse(lhs, "assignment to _")
		}
		v, ok := en.vars[l.Name]
		if !ok {
			t.refuse(lhs, "assignment to %s, which is not a local, parameter or receiver", l.Name)
		}
		if v.kind != vLocal {
			t.refuse(lhs, "assignment to the pointer variable %s itself", l.Name)
		}
		return ind(n) + "let " + v.coq + " := " + mk(v.t, v.coq) + " in\n"
	case *ast.SelectorExpr:
		id, ok := l.X.(*ast.Ident)
		if !ok {
			t.refuse(lhs, "assignment to a nested field")
		}
		v, ok := en.vars[id.Name]
		if !ok || v.t.k != kStruct {
			t.refuse(lhs, "assignment to a field of something that is not a struct variable")
		}
		if v.kind == vPtrParam {
			t.refuse(lhs, "mutation through pointer parameter %s", id.Name)
		}
		si := t.structs[v.t.name]
		for _, fl := range si.fields {
			if fl.name == l.Sel.Name {
				cur := "(" + si.name + "_" + fl.name + " " + v.coq + ")"
				return ind(n) + "let " + v.coq + " := set_" + si.name + "_" + fl.name + " " + v.coq + " " + atom(mk(fl.t, cur)) + " in\n"
			}
		}
		t.refuse(lhs, "unknown field %s", l.Sel.Name)
	case *ast.StarExpr:
		id, ok := l.X.(*ast.Ident)
		if ok {
			if v, ok := en.vars[id.Name]; ok && v.kind == vRecvPtr {
				return ind(n) + "let " + v.coq + " := " + mk(v.t, v.coq) + " in\n"
			}
		}
		t.refuse(lhs, "assignment through a pointer other than the receiver")
	}
	t.refuse(lhs, "assignment target %T", lhs)
	return ""
}

var opOfAssign = map[token.Token]token.Token{
	token.ADD_ASSIGN: token.ADD, token.SUB_ASSIGN: token.SUB, token.MUL_ASSIGN: token.MUL,
	token.QUO_ASSIGN: token.QUO, token.REM_ASSIGN: token.REM,
}

func (f *fn) stmt(s ast.Stmt, en env, n int, k cont) string {
	t := f.t
	f.steps++
	if f.steps > 4000 {
		t.refuse(s, "control flow too branchy: the continuation-duplicating translation of %s exceeds 4000 statements", f.fi.key)
	}
	switch x := s.(type) {
	case *ast.EmptyStmt:
		return k(en, n)
	case *ast.BlockStmt:
		return f.block(x.List, en.deeper(), n, func(_ env, n2 int) string { return k(en, n2) })
	case *ast.ReturnStmt:
		if len(x.Results) == 1 && len(f.fi.results) >= 1 {
			if call, fi, recv := f.impureCall(x.Results[0], en); call != nil {
				if len(fi.results) != len(f.fi.results) {
					t.refuse(s, "return of a call with a different number of results")
				}
				names := make([]string, len(fi.results))
				for i := range names {
					if fi.results[i] != f.fi.results[i] {
						t.refuse(s, "return of a call with different result types")
					}
					names[i] = fmt.Sprintf("ret_%d", i+1)
				}
				return f.bindCall(call, fi, recv, names, en, n) + ind(n) + f.ret(names) + "\n"
			}
		}
		if len(x.Results) != len(f.fi.results) {
			t.refuse(s, "return with %d values in a function with %d results", len(x.Results), len(f.fi.results))
		}
		vals := make([]string, len(x.Results))
		for i, r := range x.Results {
			vals[i] = f.exprAs(r, en, f.fi.results[i])
		}
		return ind(n) + f.ret(vals) + "\n"
	case *ast.ExprStmt:
		call, ok := x.X.(*ast.CallExpr)
		if !ok {
			t.refuse(s, "expression statement that is not a call")
		}
		if isIdent(call.Fun, "panic") {
			if _, bound := en.vars["panic"]; !bound {
				for _, a := range call.Args {
					f.pureIgnored(a, en)
				}
				return ind(n) + "None (* panic *)\n"
			}
		}
		if pkg, name, ok := f.pkgSel(call.Fun, en); ok {
			if pkg == "log" && (name == "Warn" || name == "Info" || name == "Debug" || name == "Error" || name == "Trace") {
				for _, a := range call.Args {
					f.pureIgnored(a, en)
				}
				return ind(n) + "(* log." + name + "(...) elided: logging has no effect on the modelled state *)\n" + k(en, n)
			}
			t.refuse(s, "call to external function %s.%s as a statement (only log.Trace/Debug/Info/Warn/Error are elided)", pkg, name)
		}
		fi, recv := f.resolveCall(call, en)
		if fi == nil {
			t.refuse(s, "call statement to a function that is not declared in this file")
		}
		t.signature(fi)
		names := make([]string, len(fi.results))
		for i := range names {
			names[i] = "_"
		}
		return f.bindCall(call, fi, recv, names, en, n) + k(en, n)
	case *ast.IncDecStmt:
		op := token.ADD
		if x.Tok == token.DEC {
			op = token.SUB
		}
		one := &ast.BasicLit{ValuePos: x.Pos(), Kind: token.INT, Value: "1"}
		be := &ast.BinaryExpr{X: x.X, OpPos: x.Pos(), Op: op, Y: one}
		line := f.assignTo(x.X, en, n, func(want typ, _ string) string { return f.exprAs(be, en, want) })
		return line + k(en, n)
	case *ast.DeclStmt:
		gd, ok := x.Decl.(*ast.GenDecl)
		if !ok || gd.Tok != token.VAR {
			t.refuse(s, "local declaration other than var")
		}
		out := ""
		for _, sp := range gd.Specs {
			vs := sp.(*ast.ValueSpec)
			if vs.Type == nil {
				t.refuse(vs, "var declaration without a type")
			}
			ty, ptr := t.resolveType(vs.Type)
			if ptr {
				t.refuse(vs, "local pointer variable")
			}
			if len(vs.Values) != 0 && len(vs.Values) != len(vs.Names) {
				t.refuse(vs, "var declaration with a multi-valued initialiser")
			}
			for i, nm := range vs.Names {
				var init string
				if len(vs.Values) > 0 {
					init = f.exprAs(vs.Values[i], en, ty)
				} else {
					switch ty.k {
					case kBool:
						init = "false"
					case kStruct:
						init = f.expr(&ast.CompositeLit{Type: &ast.Ident{NamePos: vs.Pos(), Name: ty.name}}, en).code
					default:
						init = "0"
					}
				}
				var c string
				en, c = f.declare(nm, en, nm.Name, ty)
				out += ind(n) + "let " + c + " := " + init + " in\n"
			}
		}
		return out + k(en, n)
	case *ast.AssignStmt:
		return f.assign(x, en, n, k)
	case *ast.IfStmt:
		if x.Init != nil {
			inner := &ast.IfStmt{If: x.If, Cond: x.Cond, Body: x.Body, Else: x.Else}
			return f.block([]ast.Stmt{x.Init, inner}, en.deeper(), n, func(_ env, n2 int) string { return k(en, n2) })
		}
		cond := f.exprAs(x.Cond, en, typ{k: kBool})
		after := func(_ env, n2 int) string { return k(en, n2) }
		thenS := f.block(x.Body.List, en.deeper(), n+1, after)
		var elseS string
		switch e := x.Else.(type) {
		case nil:
			elseS = k(en, n+1)
		case *ast.BlockStmt:
			elseS = f.block(e.List, en.deeper(), n+1, after)
		case *ast.IfStmt:
			elseS = f.block([]ast.Stmt{e}, en.deeper(), n+1, after)
		default:
			t.refuse(x.Else, "else branch %T", x.Else)
		}
		return ind(n) + "if " + cond + " then (\n" + thenS + ind(n) + ") else (\n" + elseS + ind(n) + ")\n"
	case *ast.ForStmt:
		t.refuse(s, "for loop")
	case *ast.RangeStmt:
		t.refuse(s, "range loop")
	case *ast.SwitchStmt:
		t.refuse(s, "switch statement")
	case *ast.TypeSwitchStmt:
		t.refuse(s, "type switch")
	case *ast.SelectStmt:
		t.refuse(s, "select statement")
	case *ast.GoStmt:
		t.refuse(s, "go statement")
	case *ast.DeferStmt:
		t.refuse(s, "defer statement")
	case *ast.SendStmt:
		t.refuse(s, "channel send")
	case *ast.BranchStmt:
		t.refuse(s, "%s statement", x.Tok)
	case *ast.LabeledStmt:
		t.refuse(s, "labeled statement")
	}
	t.refuse(s, "statement %T", s)
	return ""
}

func (f *fn) assign(x *ast.AssignStmt, en env, n int, k cont) string {
	t := f.t
	// calls that must be sequenced
	if len(x.Rhs) == 1 && (x.Tok == token.DEFINE || x.Tok == token.ASSIGN) {
		if call, fi, recv := f.impureCall(x.Rhs[0], en); call != nil {
			if len(x.Lhs) != len(fi.results) {
				t.refuse(x, "assignment count mismatch calling %s", fi.key)
			}
			names := make([]string, len(x.Lhs))
			en2 := en
			for i, l := range x.Lhs {
				id, ok := l.(*ast.Ident)
				if !ok {
					t.refuse(l, "result of a sequenced call assigned to something other than a variable")
				}
				if id.Name == "_" {
					names[i] = "_"
					continue
				}
				old, exists := en.vars[id.Name]
				if x.Tok == token.DEFINE && !(exists && old.depth == en.depth && old.kind == vLocal) {
					en2, names[i] = f.declare(l, en2, id.Name, fi.results[i])
					continue
				}
				if !exists || old.kind != vLocal || old.t != fi.results[i] {
					t.refuse(l, "assignment of a call result to %s", id.Name)
				}
				names[i] = old.coq
			}
			return f.bindCall(call, fi, recv, names, en, n) + k(en2, n)
		}
	}
	if len(x.Lhs) != 1 || len(x.Rhs) != 1 {
		t.refuse(x, "parallel / tuple assignment")
	}
	lhs, rhs := x.Lhs[0], x.Rhs[0]
	switch x.Tok {
	case token.DEFINE:
		id, ok := lhs.(*ast.Ident)
		if !ok {
			t.refuse(lhs, ":= to a non-identifier")
		}
		var code string
		var ty typ
		if isIdent(rhs, "nil") {
			t.refuse(rhs, ":= nil")
		}
		v := f.expr(rhs, en)
		if v.t.k == kUntyped {
			t.refuse(rhs, "%s := untyped constant (would have Go type int, outside the subset; write uint64(c))", id.Name)
		}
		code, ty = v.code, v.t
		en2, c := f.declare(lhs, en, id.Name, ty)
		return ind(n) + "let " + c + " := " + code + " in\n" + k(en2, n)
	case token.ASSIGN:
		line := f.assignTo(lhs, en, n, func(want typ, _ string) string { return f.exprAs(rhs, en, want) })
		return line + k(en, n)
	default:
		op, ok := opOfAssign[x.Tok]
		if !ok {
			t.refuse(x, "assignment operator %s", x.Tok)
		}
		be := &ast.BinaryExpr{X: lhs, OpPos: x.TokPos, Op: op, Y: rhs}
		line := f.assignTo(lhs, en, n, func(want typ, _ string) string { return f.exprAs(be, en, want) })
		return line + k(en, n)
	}
}

// ---------------------------------------------------------------- functions

func (t *translator) translate(fi *funcInfo, from ast.Node) {
	if fi.state == 2 {
		return
	}
	if fi.state == 1 {
		t.refuse(from, "recursion through %s", fi.key)
	}
	fi.state = 1
	t.signature(fi)
	f := &fn{t: t, fi: fi}
	en := env{vars: map[string]varInfo{}, depth: 0}
	var sig strings.Builder
	if fi.hasRecv {
		kind := vLocal
		if fi.recvPtr {
			kind = vRecvPtr
		}
		c := t.ident(fi.decl, fi.recvName)
		en = en.with(fi.recvName, varInfo{t: typ{k: kStruct, name: fi.recvType}, kind: kind, coq: c})
		sig.WriteString(" (" + c + " : " + fi.recvType + ")")
	}
	for _, p := range fi.params {
		if p.name == "_" {
			sig.WriteString(" (_ : " + p.t.coq() + ")")
			continue
		}
		if _, dup := en.vars[p.name]; dup {
			t.refuse(fi.decl, "duplicate parameter name %s", p.name)
		}
		kind := vLocal
		if p.ptr {
			kind = vPtrParam
		}
		c := t.ident(fi.decl, p.name)
		en = en.with(p.name, varInfo{t: p.t, kind: kind, coq: c})
		sig.WriteString(" (" + c + " : " + p.t.coq() + ")")
	}
	var comps []string
	if fi.hasRecv && fi.recvPtr {
		comps = append(comps, fi.recvType)
	}
	for _, r := range fi.results {
		comps = append(comps, r.coq())
	}
	rty := "unit"
	if len(comps) > 0 {
		rty = strings.Join(comps, " * ")
	}
	if fi.mayPanic {
		rty = "option (" + rty + ")"
	}
	body := f.block(fi.decl.Body.List, en.deeper(), 1, func(_ env, n int) string {
		if len(fi.results) != 0 {
			t.refuse(fi.decl, "control reaches the end of %s without a return", fi.key)
		}
		return ind(n) + f.ret(nil) + "\n"
	})
	pos := t.fset.Position(fi.decl.Pos())
	var sb strings.Builder
	fmt.Fprintf(&sb, "(* Go: %s  — %s:%d%s *)\n", goSig(fi), shortPath(pos.Filename), pos.Line, panicNote(fi))
	fmt.Fprintf(&sb, "Definition %s%s : %s :=\n%s.\n", fi.coqName, sig.String(), rty, strings.TrimRight(body, "\n"))
	fi.text = sb.String()
	fi.state = 2
	t.emitted = append(t.emitted, fi)
}

func panicNote(fi *funcInfo) string {
	if fi.mayPanic {
		return "; None = the Go function panics"
	}
	return ""
}

func shortPath(p string) string {
	if i := strings.Index(p, "/core/"); i >= 0 {
		return p[i+1:]
	}
	return p
}

func goSig(fi *funcInfo) string {
	var sb strings.Builder
	sb.WriteString("func ")
	if fi.hasRecv {
		star := ""
		if fi.recvPtr {
			star = "*"
		}
		sb.WriteString("(" + fi.recvName + " " + star + fi.recvType + ") ")
	}
	sb.WriteString(fi.decl.Name.Name + "(")
	for i, p := range fi.params {
		if i > 0 {
			sb.WriteString(", ")
		}
		star := ""
		if p.ptr {
			star = "*"
		}
		sb.WriteString(p.name + " " + star + p.t.String())
	}
	sb.WriteString(")")
	if len(fi.results) > 0 {
		var rs []string
		for _, r := range fi.results {
			rs = append(rs, r.String())
		}
		sb.WriteString(" (" + strings.Join(rs, ", ") + ")")
	}
	return sb.String()
}

func splitList(s string) []string {
	var out []string
	for _, p := range strings.Split(s, ",") {
		p = strings.TrimSpace(p)
		if p != "" {
			out = append(out, p)
		}
	}
	return out
}

func run(src, funcs, skip, out, prelude string) (err error) {
	defer func() {
		if r := recover(); r != nil {
			if rf, ok := r.(refusal); ok {
				err = fmt.Errorf("REFUSED %s", rf.msg)
				return
			}
			panic(r)
		}
	}()
	data, e := os.ReadFile(src)
	if e != nil {
		return e
	}
	t := &translator{fset: token.NewFileSet(), structs: map[string]*structInfo{}, funcs: map[string]*funcInfo{},
		want: map[string]bool{}, errs: map[string]bool{}}
	file, e := parser.ParseFile(t.fset, src, data, parser.SkipObjectResolution)
	if e != nil {
		return fmt.Errorf("REFUSED parse error: %v", e)
	}
	t.file = file
	for _, d := range file.Decls {
		switch x := d.(type) {
		case *ast.GenDecl:
			if x.Tok != token.TYPE {
				continue
			}
			for _, sp := range x.Specs {
				ts := sp.(*ast.TypeSpec)
				if _, ok := ts.Type.(*ast.StructType); ok && ts.TypeParams == nil && !ts.Assign.IsValid() {
					t.structs[ts.Name.Name] = &structInfo{name: ts.Name.Name, spec: ts}
					t.sorder = append(t.sorder, ts.Name.Name)
				}
			}
		case *ast.FuncDecl:
			fi := &funcInfo{decl: x}
			if x.Recv != nil && len(x.Recv.List) == 1 {
				fi.hasRecv = true
				rt := x.Recv.List[0].Type
				if st, ok := rt.(*ast.StarExpr); ok {
					rt = st.X
				}
				id, ok := rt.(*ast.Ident)
				if !ok {
					continue // generic receiver etc.: cannot be requested
				}
				fi.recvType = id.Name
				fi.key = id.Name + "." + x.Name.Name
				fi.coqName = id.Name + "_" + x.Name.Name
			} else {
				fi.key = x.Name.Name
				fi.coqName = x.Name.Name
			}
			t.funcs[fi.key] = fi
			t.forder = append(t.forder, fi.key)
		}
	}
	skipSet := map[string]bool{}
	for _, s := range splitList(skip) {
		if t.funcs[s] == nil {
			return fmt.Errorf("REFUSED -skip names %s, which is not declared in %s", s, src)
		}
		skipSet[s] = true
	}
	for _, w := range splitList(funcs) {
		if strings.HasSuffix(w, ".*") {
			tn := strings.TrimSuffix(w, ".*")
			if t.structs[tn] == nil {
				return fmt.Errorf("REFUSED %s: no struct type %s in %s", w, tn, src)
			}
			for _, k := range t.forder {
				if t.funcs[k].hasRecv && t.funcs[k].recvType == tn && !skipSet[k] {
					t.want[k] = true
				}
			}
			continue
		}
		if t.funcs[w] == nil {
			return fmt.Errorf("REFUSED requested function %s is not declared in %s", w, src)
		}
		t.want[w] = true
	}
	if len(t.want) == 0 {
		return fmt.Errorf("REFUSED nothing to translate")
	}
	var requested []string
	for _, k := range t.forder {
		if t.want[k] {
			requested = append(requested, k)
			t.translate(t.funcs[k], t.funcs[k].decl)
		}
	}
	// ---- emit
	var sb strings.Builder
	fmt.Fprintf(&sb, "(* GENERATED by tools/go2coq — DO NOT EDIT; regenerated on every run of bin/check.\n")
	fmt.Fprintf(&sb, "   source:  %s\n   sha256:  %x\n", src, sha256.Sum256(data))
	fmt.Fprintf(&sb, "   funcs:   %s\n", strings.Join(requested, " "))
	var sk []string
	for k := range skipSet {
		sk = append(sk, k)
	}
	sort.Strings(sk)
	fmt.Fprintf(&sb, "   skipped: %s\n", strings.Join(sk, " "))
	fmt.Fprintf(&sb, "   conventions: uint64/int64/error-class = Z, wrap-around explicit through u64/i64 (Gas/GoArith.v);\n")
	fmt.Fprintf(&sb, "   a pointer-receiver method returns (receiver', results...); a > b is printed b <? a. *)\n")
	fmt.Fprintf(&sb, "%s\nLocal Open Scope Z_scope.\n\n", prelude)
	for _, sn := range t.sorder {
		si := t.structs[sn]
		if !si.used {
			continue
		}
		fmt.Fprintf(&sb, "(* Go: type %s struct — %s:%d *)\n", sn, shortPath(src), t.fset.Position(si.spec.Pos()).Line)
		fmt.Fprintf(&sb, "Record %s : Set := mk%s {\n", sn, sn)
		for i, fl := range si.fields {
			sep := ";"
			if i == len(si.fields)-1 {
				sep = ""
			}
			fmt.Fprintf(&sb, "  %s_%s : %s%s  (* %s *)\n", sn, fl.name, fl.t.coq(), sep, fl.t)
		}
		fmt.Fprintf(&sb, "}.\n")
		for i, fl := range si.fields {
			var as []string
			for j, g := range si.fields {
				if i == j {
					as = append(as, "v")
				} else {
					as = append(as, "("+sn+"_"+g.name+" r)")
				}
			}
			fmt.Fprintf(&sb, "Definition set_%s_%s (r : %s) (v : %s) : %s :=\n  mk%s %s.\n", sn, fl.name, sn, fl.t.coq(), sn, sn, strings.Join(as, " "))
		}
		sb.WriteString("\n")
	}
	var en []string
	for e := range t.errs {
		en = append(en, e)
	}
	sort.Strings(en)
	if len(en) > 0 {
		sb.WriteString("(* error classes: nil = 0; package-level error variables in alphabetical order *)\n")
		for i, e := range en {
			fmt.Fprintf(&sb, "Definition %s : Z := %d.\n", e, i+1)
		}
		sb.WriteString("\n")
	}
	for _, fi := range t.emitted {
		sb.WriteString(fi.text)
		sb.WriteString("\n")
	}
	// the text is regenerated on every run; the file is rewritten only when the text
	// differs, so that make does not recompile the proofs of an unchanged source
	if old, e := os.ReadFile(out); e == nil && string(old) == sb.String() {
		return nil
	}
	return os.WriteFile(out, []byte(sb.String()), 0o644)
}

func main() {
	src := flag.String("src", "", "Go source file")
	funcs := flag.String("funcs", "", "comma separated: Type.method, Type.*, func")
	skip := flag.String("skip", "", "comma separated Type.method entries excluded from Type.*")
	out := flag.String("out", "", "output .v file")
	prelude := flag.String("prelude", "From Coq Require Import ZArith Bool.\nFrom GV Require Import Gas.GoArith.", "import lines of the generated file")
	flag.Parse()
	if *src == "" || *out == "" || *funcs == "" {
		fmt.Fprintln(os.Stderr, "usage: go2coq -src file.go -funcs list [-skip list] -out file_gen.v")
		os.Exit(2)
	}
	if err := run(*src, *funcs, *skip, *out, *prelude); err != nil {
		os.Remove(*out) // never leave a stale generated file behind a refusal
		fmt.Fprintf(os.Stderr, "go2coq: %v\n", err)
		os.Exit(3)
	}
}
